#!/usr/bin/env python3
"""Independent Unicode normalisation oracle (CPython unicodedata).

Protocol (one request per line on stdin, one reply per line on stdout):
  N <hex>          -> hex of NFKD(utf8-decode(hex)); "!" if not valid UTF-8
  F <form> <hex>   -> same with form in NFC NFD NFKC NFKD
  T                -> table of every assigned, non-surrogate code point:
                      "<cp hex> <category> <ccc> <nfkd hex | ->" lines, then "."
  V                -> unidata version
An empty hex string is written as "-".
"""
import sys
import unicodedata as ud


def main():
    out = sys.stdout
    for line in sys.stdin:
        parts = line.split()
        if not parts:
            continue
        cmd = parts[0]
        if cmd == 'N' or cmd == 'F':
            form = 'NFKD' if cmd == 'N' else parts[1]
            h = parts[-1]
            raw = b'' if h == '-' else bytes.fromhex(h)
            try:
                s = raw.decode('utf-8', 'strict')
            except UnicodeDecodeError:
                out.write('!\n')
                continue
            r = ud.normalize(form, s).encode('utf-8', 'surrogatepass')
            out.write((r.hex() or '-') + '\n')
        elif cmd == 'T':
            for cp in range(0x110000):
                if 0xD800 <= cp <= 0xDFFF:
                    continue
                c = chr(cp)
                cat = ud.category(c)
                if cat == 'Cn':
                    continue
                d = ud.normalize('NFKD', c)
                out.write('%x %s %d %s\n' % (cp, cat, ud.combining(c), '-' if d == c else d.encode('utf-8').hex()))
            out.write('.\n')
        elif cmd == 'K':
            # K <hex password> <hex salt>: PBKDF2-HMAC-SHA512, 2048 rounds, 64 bytes (hashlib),
            # an oracle for the harness's own PBKDF2 loop (self-test only)
            import hashlib
            pw = b'' if parts[1] == '-' else bytes.fromhex(parts[1])
            salt = b'' if parts[2] == '-' else bytes.fromhex(parts[2])
            out.write(hashlib.pbkdf2_hmac('sha512', pw, salt, 2048, 64).hex() + '\n')
        elif cmd == 'V':
            out.write(ud.unidata_version + '\n')
        elif cmd == 'FLUSH':
            out.write('ok\n')
        out.flush() if cmd in ('T', 'V', 'FLUSH') else None
    out.flush()


if __name__ == '__main__':
    main()
