// Package earlyrand interposes on crypto/rand.Reader before the package under
// test is initialised. It must only import packages that bip39 itself imports
// transitively, and its import path must sort before "github.com/...": the Go
// linker initialises independent packages in import-path order, so this init
// runs first and `var cryptoRander = rand.Reader` in bip39 captures the
// recording wrapper iff it is initialised from crypto/rand.Reader.
package earlyrand

import (
	"crypto/rand"
	"io"
	"os"
	"sync"
)

// Event is one Read seen at the crypto/rand boundary.
type Event struct {
	Req  int
	N    int
	Err  error
	Data []byte
}

// maxData bounds the bytes kept per event and maxEvents the events kept
// between two drains, so that a runaway caller cannot exhaust memory through
// the monitor. N always holds the true number of bytes delivered.
const (
	maxData   = 256
	maxEvents = 4096
)

// Recorder wraps the original crypto/rand.Reader.
type Recorder struct {
	mu      sync.Mutex
	r       io.Reader
	log     []Event
	Dropped int
}

func (w *Recorder) Read(p []byte) (int, error) {
	n, err := w.r.Read(p)
	w.mu.Lock()
	if len(w.log) < maxEvents {
		keep := n
		if keep > maxData {
			keep = maxData
		}
		w.log = append(w.log, Event{Req: len(p), N: n, Err: err, Data: append([]byte(nil), p[:keep]...)})
	} else {
		w.Dropped++
	}
	w.mu.Unlock()
	return n, err
}

// Drain returns and clears the recorded events.
func (w *Recorder) Drain() []Event {
	w.mu.Lock()
	l := w.log
	w.log = nil
	w.mu.Unlock()
	return l
}

// Orig is crypto/rand.Reader as it was before this package touched it.
var Orig io.Reader

// Wrapper is non-nil when interposition was requested with VERIF_EARLYRAND=1.
var Wrapper *Recorder

func init() {
	Orig = rand.Reader
	if os.Getenv("VERIF_EARLYRAND") == "1" {
		Wrapper = &Recorder{r: Orig}
		rand.Reader = Wrapper
	}
}
