// Package earlyrand interposes on crypto/rand.Reader before the package under
// test is initialised. It must only import packages that bip39 itself imports
// transitively (errors, strconv and strings are dependencies of math/big and fmt, which bip39 imports), and its import path must sort before "github.com/...": the Go
// linker initialises independent packages in import-path order, so this init
// runs first and `var cryptoRander = rand.Reader` in bip39 captures the
// recording wrapper iff it is initialised from crypto/rand.Reader.
package earlyrand

import (
	"crypto/rand"
	"errors"
	"io"
	"os"
	"runtime"
	"strconv"
	"strings"
	"sync"
	"syscall"
	"time"
)

// Event is one Read seen at the crypto/rand boundary.
type Event struct {
	Req  int
	N    int
	Err  error
	Data []byte
	G    int64 // goroutine that performed the read (only when TrackG is set)
}

// TrackG makes the recorder note the reading goroutine (concurrent runs).
var TrackG bool

func goid() int64 {
	var buf [64]byte
	n := runtime.Stack(buf[:], false)
	// "goroutine 123 [running]:"
	s := string(buf[:n])
	s = strings.TrimPrefix(s, "goroutine ")
	if i := strings.IndexByte(s, ' '); i > 0 {
		id, _ := strconv.ParseInt(s[:i], 10, 64)
		return id
	}
	return -1
}

// maxData bounds the bytes kept per event and maxEvents the events kept
// between two drains, so that a runaway caller cannot exhaust memory through
// the monitor. N always holds the true number of bytes delivered.
const (
	maxData   = 256
	maxEvents = 1 << 16
)

// Recorder wraps the original crypto/rand.Reader.
type Recorder struct {
	mu      sync.Mutex
	r       io.Reader
	log     []Event
	Dropped int
	mode    string // "" (record only) | short | fail | failpartial
	at      int    // fail / failpartial: which Read of the process fails (1-based)
	reads   int
}

type tempErr struct{}

func (tempErr) Error() string   { return "verif: injected transient crypto/rand failure" }
func (tempErr) Temporary() bool { return true }
func (tempErr) Timeout() bool   { return true }

// ErrInjected is the failure injected at the crypto/rand boundary.
var ErrInjected = errors.New("verif: injected crypto/rand failure")

func (w *Recorder) Read(p []byte) (int, error) {
	w.mu.Lock()
	w.reads++
	k := w.reads
	w.mu.Unlock()
	var n int
	var err error
	switch {
	case w.mode == "gc" && len(p) > 5:
		// a slow, fragmenting source: before every fragment a garbage collection (with
		// finalizers) completes
		runtime.GC()
		time.Sleep(time.Millisecond)
		runtime.GC()
		runtime.Gosched()
		n, err = w.r.Read(p[:1+k%5])
	case w.mode == "short" && len(p) > 5:
		n, err = w.r.Read(p[:1+k%5]) // a legal short read
	case w.mode == "zeros" && k%w.at == 0:
		// the OS source happens to deliver all-zero bytes: they must be used like any others
		for i := range p {
			p[i] = 0
		}
		n, err = len(p), nil
	case w.mode == "tempfail" && k >= w.at && k < w.at+6:
		// six consecutive transient-looking failures (a consumer that retries a bounded
		// number of times must still fail closed)
		n, err = 0, tempErr{}
	case w.mode == "panicstr" && k == w.at:
		// the source panics inside Read with a value that is not an error (recorded first)
		w.mu.Lock()
		if len(w.log) < maxEvents {
			ev := Event{Req: len(p), N: 0, Err: ErrInjected}
			if TrackG {
				ev.G = goid()
			}
			w.log = append(w.log, ev)
		}
		w.mu.Unlock()
		panic("verif: injected crypto/rand panic (string value)")
	case w.mode == "fail" && k == w.at:
		n, err = 0, ErrInjected
	case w.mode == "failenoent" && k == w.at:
		// the shape of a missing /dev/urandom (matches fs.ErrNotExist)
		n, err = 0, &os.PathError{Op: "open", Path: "/dev/urandom", Err: syscall.ENOENT}
	case w.mode == "failenosys" && k == w.at:
		// getrandom(2) not implemented (matches errors.ErrUnsupported)
		n, err = 0, syscall.ENOSYS
	case w.mode == "failpartial" && k == w.at && len(p) > 3:
		n, err = w.r.Read(p[:3])
		if err == nil {
			err = ErrInjected
		}
	default:
		n, err = w.r.Read(p)
	}
	w.mu.Lock()
	if len(w.log) < maxEvents {
		keep := n
		if keep > maxData {
			keep = maxData
		}
		ev := Event{Req: len(p), N: n, Err: err, Data: append([]byte(nil), p[:keep]...)}
		if TrackG {
			ev.G = goid()
		}
		w.log = append(w.log, ev)
	} else {
		w.Dropped++
	}
	w.mu.Unlock()
	return n, err
}

// FirstSince returns the first n bytes delivered to goroutine g by the events
// recorded from position `from` of the log on (nil when fewer were delivered).
func (w *Recorder) FirstSince(g int64, from, n int) []byte {
	w.mu.Lock()
	defer w.mu.Unlock()
	var out []byte
	for i := from; i < len(w.log) && len(out) < n; i++ {
		if w.log[i].G == g {
			out = append(out, w.log[i].Data...)
		}
	}
	if len(out) < n {
		return nil
	}
	return out[:n]
}

// Len is the number of recorded events.
func (w *Recorder) Len() int {
	w.mu.Lock()
	defer w.mu.Unlock()
	return len(w.log)
}

// Drain returns and clears the recorded events.
func (w *Recorder) Drain() []Event {
	w.mu.Lock()
	l := w.log
	w.log = nil
	w.mu.Unlock()
	return l
}

// Orig is crypto/rand.Reader as it was before this package touched it.
var Orig io.Reader

// Wrapper is non-nil when interposition was requested with VERIF_EARLYRAND=1.
var Wrapper *Recorder

func init() {
	Orig = rand.Reader
	// VERIF_EARLYRAND: "1" records; "short" also fragments every read; "fail:N" and
	// "failpartial:N" make the Nth Read of the process fail (with 0 or 3 bytes);
	// "zeros:N" makes every Nth Read deliver all-zero bytes.
	if v := os.Getenv("VERIF_EARLYRAND"); v != "" {
		Wrapper = &Recorder{r: Orig}
		if i := strings.IndexByte(v, ':'); i > 0 {
			Wrapper.mode = v[:i]
			Wrapper.at, _ = strconv.Atoi(v[i+1:])
		} else if v != "1" {
			Wrapper.mode = v
		}
		rand.Reader = Wrapper
	}
}
