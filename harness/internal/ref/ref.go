// Package ref is the reference model: an independent BIP39 encoder, decoder
// and seed function written over bit arrays and the frozen golden word lists.
// It shares no code with the implementation under test (no math/big, no
// x/crypto, no x/text).
package ref

import (
	"bufio"
	"crypto/hmac"
	"crypto/sha256"
	"crypto/sha512"
	"encoding/hex"
	"fmt"
	"os"
	"path/filepath"
	"strings"
)

// NLang is the number of supported languages.
const NLang = 10

// Files are the golden file base names in Language order (0..9).
var Files = [NLang]string{"chinese_simplified", "chinese_traditional", "english", "french", "italian", "japanese", "korean", "spanish", "czech", "portuguese"}

// Names are the declared identifiers in Language order.
var Names = [NLang]string{"ChineseSimplified", "ChineseTraditional", "English", "French", "Italian", "Japanese", "Korean", "Spanish", "Czech", "Portuguese"}

// Japanese is the language whose generated sentences are joined by U+3000.
const Japanese = 5

// EntSizes are the accepted entropy sizes in bytes, WordCounts the matching word counts.
var EntSizes = [5]int{16, 20, 24, 28, 32}
var WordCounts = [5]int{12, 15, 18, 21, 24}

// Model holds the golden lists.
type Model struct {
	List  [NLang][]string
	Index [NLang]map[string]int
}

// Load reads and verifies the golden lists.
func Load(dir string) (*Model, error) {
	sums := map[string]string{}
	f, err := os.Open(filepath.Join(dir, "SHA256SUMS"))
	if err != nil {
		return nil, err
	}
	sc := bufio.NewScanner(f)
	for sc.Scan() {
		fs := strings.Fields(sc.Text())
		if len(fs) == 2 {
			sums[fs[1]] = fs[0]
		}
	}
	f.Close()
	m := &Model{}
	for l, name := range Files {
		raw, err := os.ReadFile(filepath.Join(dir, name+".txt"))
		if err != nil {
			return nil, err
		}
		d := sha256.Sum256(raw)
		if hex.EncodeToString(d[:]) != sums[name+".txt"] {
			return nil, fmt.Errorf("golden list %s does not match SHA256SUMS", name)
		}
		words := strings.Split(strings.TrimSuffix(string(raw), "\n"), "\n")
		if len(words) != 2048 {
			return nil, fmt.Errorf("golden list %s has %d words", name, len(words))
		}
		m.List[l] = words
		m.Index[l] = make(map[string]int, 2048)
		for i, w := range words {
			if _, dup := m.Index[l][w]; dup || w == "" {
				return nil, fmt.Errorf("golden list %s: duplicate or empty word at %d", name, i)
			}
			m.Index[l][w] = i
		}
	}
	return m, nil
}

// Sep is the separator the generator must use for a language.
func Sep(lang int) string {
	if lang == Japanese {
		return "\u3000"
	}
	return " "
}

// bitsOf returns the bits of b, most significant first, one per byte.
func bitsOf(b []byte) []byte {
	out := make([]byte, 0, len(b)*8)
	for _, x := range b {
		for k := 7; k >= 0; k-- {
			out = append(out, (x>>uint(k))&1)
		}
	}
	return out
}

// Indices returns the 11-bit word indices of the BIP39 encoding of ent.
func Indices(ent []byte) []int {
	cs := len(ent) / 4 // ENT/32 bits
	h := sha256.Sum256(ent)
	bits := append(bitsOf(ent), bitsOf(h[:])[:cs]...)
	n := len(bits) / 11
	idx := make([]int, n)
	for w := 0; w < n; w++ {
		v := 0
		for k := 0; k < 11; k++ {
			v = v<<1 | int(bits[w*11+k])
		}
		idx[w] = v
	}
	return idx
}

// Words returns the words of the BIP39 encoding of ent in a language.
func (m *Model) Words(ent []byte, lang int) []string {
	idx := Indices(ent)
	ws := make([]string, len(idx))
	for i, v := range idx {
		ws[i] = m.List[lang][v]
	}
	return ws
}

// Enc is R-ENC: the sentence the generator must return.
func (m *Model) Enc(ent []byte, lang int) string {
	return strings.Join(m.Words(ent, lang), Sep(lang))
}

// Status of a decode.
type Status int

const (
	OK Status = iota
	BadCount
	UnknownWord
	BadChecksum
)

func (s Status) String() string {
	return [...]string{"ok", "bad count", "unknown word", "bad checksum"}[s]
}

// ValidCount reports whether n is one of 12, 15, 18, 21, 24.
func ValidCount(n int) bool {
	for _, c := range WordCounts {
		if n == c {
			return true
		}
	}
	return false
}

// Dec is R-DEC: tokens → entropy. Unknown is the position of the first token
// that is not a list word (when Status is UnknownWord).
func (m *Model) Dec(tokens []string, lang int) (ent []byte, st Status, unknown int) {
	if lang < 0 || lang >= NLang {
		// no list: nothing is a word of it
		return nil, UnknownWord, 0
	}
	if !ValidCount(len(tokens)) {
		return nil, BadCount, -1
	}
	bits := make([]byte, 0, len(tokens)*11)
	for i, t := range tokens {
		v, ok := m.Index[lang][t]
		if !ok {
			return nil, UnknownWord, i
		}
		for k := 10; k >= 0; k-- {
			bits = append(bits, byte(v>>uint(k))&1)
		}
	}
	cs := len(tokens) / 3
	entBits := bits[:len(bits)-cs]
	ent = make([]byte, len(entBits)/8)
	for i, b := range entBits {
		ent[i/8] |= b << uint(7-i%8)
	}
	h := sha256.Sum256(ent)
	hb := bitsOf(h[:1])
	for k := 0; k < cs; k++ {
		if hb[k] != bits[len(entBits)+k] {
			return ent, BadChecksum, -1
		}
	}
	return ent, OK, -1
}

// DecodeLoose decodes tokens to entropy ignoring the checksum (used to map a
// sentence back to the bytes it claims to encode).
func (m *Model) DecodeLoose(tokens []string, lang int) ([]byte, bool) {
	ent, st, _ := m.Dec(tokens, lang)
	return ent, st == OK || st == BadChecksum
}

// Seed is R-SEED on already normalised arguments: PBKDF2-HMAC-SHA512 with
// 2048 iterations and a 64-byte result, written out from RFC 8018 (a single
// block, since the hash output is 64 bytes).
func Seed(passwordNFKD, passphraseNFKD []byte) []byte {
	salt := append([]byte("mnemonic"), passphraseNFKD...)
	mac := hmac.New(sha512.New, passwordNFKD)
	mac.Write(salt)
	mac.Write([]byte{0, 0, 0, 1})
	u := mac.Sum(nil)
	t := append([]byte(nil), u...)
	for i := 1; i < 2048; i++ {
		mac.Reset()
		mac.Write(u)
		u = mac.Sum(u[:0])
		for k := range t {
			t[k] ^= u[k]
		}
	}
	return t
}

// SelfTest checks the model against published BIP39 vectors. A failure means
// the harness is broken, never that the code under test is.
func (m *Model) SelfTest() error {
	type v struct{ ent, sentence string }
	for _, c := range []v{
		{"00000000000000000000000000000000", "abandon abandon abandon abandon abandon abandon abandon abandon abandon abandon abandon about"},
		{"7f7f7f7f7f7f7f7f7f7f7f7f7f7f7f7f", "legal winner thank year wave sausage worth useful legal winner thank yellow"},
		{"ffffffffffffffffffffffffffffffff", "zoo zoo zoo zoo zoo zoo zoo zoo zoo zoo zoo wrong"},
		{"ffffffffffffffffffffffffffffffffffffffffffffffffffffffffffffffff", "zoo zoo zoo zoo zoo zoo zoo zoo zoo zoo zoo zoo zoo zoo zoo zoo zoo zoo zoo zoo zoo zoo zoo vote"},
		{"9e885d952ad362caeb4efe34a8e91bd2", "ozone drill grab fiber curtain grace pudding thank cruise elder eight picnic"},
		{"f585c11aec520db57dd353c69554b21a89b20fb0650966fa0a9d6f74fd989d8f", "void come effort suffer camp survey warrior heavy shoot primary clutch crush open amazing screen patrol group space point ten exist slush involve unfold"},
	} {
		e, _ := hex.DecodeString(c.ent)
		if got := m.Enc(e, 2); got != c.sentence {
			return fmt.Errorf("reference encoder self-test failed for %s: %q", c.ent, got)
		}
		back, st, _ := m.Dec(strings.Split(c.sentence, " "), 2)
		if st != OK || hex.EncodeToString(back) != c.ent {
			return fmt.Errorf("reference decoder self-test failed for %s", c.ent)
		}
	}
	seed := Seed([]byte("abandon abandon abandon abandon abandon abandon abandon abandon abandon abandon abandon about"), []byte("TREZOR"))
	if hex.EncodeToString(seed) != "c55257c360c07c72029aebc1b53c05ed0362ada38ead3e3e9efa3708e53495531f09a6987599d18264c1e1c92f2cf141630c7a3c4ab7c81b2f001698e7463b04" {
		return fmt.Errorf("reference PBKDF2 self-test failed: %x", seed)
	}
	e0 := make([]byte, 16)
	if got := m.Enc(e0, Japanese); got != strings.Repeat("あいこくしん\u3000", 11)+"あおそ\u3099ら" {
		return fmt.Errorf("reference encoder self-test failed for Japanese: %q", got)
	}
	return nil
}
