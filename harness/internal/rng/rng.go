// Package rng is the harness's own deterministic generator (splitmix64 seeding
// xoshiro256**), so that case lists depend on VERIF_SEED only.
package rng

import "math/bits"

type R struct{ s [4]uint64 }

func splitmix(x *uint64) uint64 {
	*x += 0x9e3779b97f4a7c15
	z := *x
	z = (z ^ (z >> 30)) * 0xbf58476d1ce4e5b9
	z = (z ^ (z >> 27)) * 0x94d049bb133111eb
	return z ^ (z >> 31)
}

// New derives a generator from a seed and a stream label, so that every
// property and every shard has its own reproducible stream.
func New(seed uint64, label string) *R {
	x := seed
	for _, c := range []byte(label) {
		x = x*1099511628211 ^ uint64(c)
		splitmix(&x)
	}
	r := &R{}
	for i := range r.s {
		r.s[i] = splitmix(&x)
	}
	return r
}

func (r *R) Uint64() uint64 {
	s := &r.s
	res := bits.RotateLeft64(s[1]*5, 7) * 9
	t := s[1] << 17
	s[2] ^= s[0]
	s[3] ^= s[1]
	s[1] ^= s[2]
	s[0] ^= s[3]
	s[2] ^= t
	s[3] = bits.RotateLeft64(s[3], 45)
	return res
}

// Intn returns a value in [0, n).
func (r *R) Intn(n int) int {
	if n <= 0 {
		panic("rng: Intn")
	}
	return int(r.Uint64() % uint64(n))
}

// Bytes returns n pseudo-random bytes.
func (r *R) Bytes(n int) []byte {
	b := make([]byte, n)
	for i := 0; i < n; i += 8 {
		v := r.Uint64()
		for k := 0; k < 8 && i+k < n; k++ {
			b[i+k] = byte(v >> (8 * uint(k)))
		}
	}
	return b
}

// Bool returns true with probability num/den.
func (r *R) Chance(num, den int) bool { return r.Intn(den) < num }

// Perm returns a permutation of 0..n-1.
func (r *R) Perm(n int) []int {
	p := make([]int, n)
	for i := range p {
		p[i] = i
	}
	for i := n - 1; i > 0; i-- {
		j := r.Intn(i + 1)
		p[i], p[j] = p[j], p[i]
	}
	return p
}
