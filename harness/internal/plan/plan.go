// Package plan holds the wire types shared by the parent (verif) and the
// child (drv). It contains no logic of the code under test and no oracle.
package plan

import (
	"bytes"
	"encoding/hex"
)

// Seg is a hex-encoded unit repeated R times; it lets the parent describe
// multi-megabyte arguments in a few bytes of plan.
type Seg struct {
	H string `json:"h"`
	R int    `json:"r"`
}

// Expand returns the bytes a segment list stands for.
func Expand(segs []Seg) []byte {
	var b bytes.Buffer
	for _, s := range segs {
		u, err := hex.DecodeString(s.H)
		if err != nil {
			panic("plan: bad hex in segment: " + err.Error())
		}
		for i := 0; i < s.R; i++ {
			b.Write(u)
		}
	}
	return b.Bytes()
}

// Step is one Read of a scripted source: deliver up to N bytes, then
// (optionally) report error E together with that read. E is "", "eof",
// "ueof" or "custom". A step with N==0 and E=="" is a legal (0, nil) read.
type Step struct {
	N    int    `json:"n"`
	E    string `json:"e,omitempty"`
	Once bool   `json:"once,omitempty"` // the error is reported by this read only: the source recovers
	GC   bool   `json:"gc,omitempty"`   // the read is slow: a garbage collection (with finalizers) completes before it delivers
}

// Src describes a scripted randomness source. After the steps are used up
// the source delivers the rest of Data in reads as large as requested and
// then returns io.EOF. Once a step reported an error the source keeps
// returning that error.
// (Src.Wrap: the scripted source is handed to the library inside a standard wrapper — "bufio"
// (*bufio.Reader, 4096), "bufio16" (*bufio.Reader, 16), "multi" (io.MultiReader), "limited"
// (io.LimitedReader far above the data), "iotest-onebyte" — a caller may install any io.Reader.)
// Max > 0 caps every read made after the steps are used up at Max bytes (a source that never
// fills a large request at once); Cycle makes Data wrap around for ever instead of ending in
// io.EOF (an endless stream, as the operating system's is). Reads of a cyclic source are logged
// up to a bound only.
type Src struct {
	Wrap  string `json:"wrap,omitempty"`
	Data  string `json:"d"`
	Steps []Step `json:"st,omitempty"`
	Max   int    `json:"max,omitempty"`
	Cycle bool   `json:"cyc,omitempty"`
}

// Op is one call the child has to make.
type Op struct {
	I  int    `json:"i"`
	Fn string `json:"f"` // enc new chk val chkval seed seed2 str strrange ident keepdump
	L  int64  `json:"l,omitempty"`

	E       string `json:"e,omitempty"`  // entropy, hex
	ENil    bool   `json:"en,omitempty"` // entropy is a nil slice
	ESegs   []Seg  `json:"es,omitempty"`
	Buf     int    `json:"buf,omitempty"` // >0: use (and keep) caller-owned buffer number Buf for the entropy
	Cap     int    `json:"cap,omitempty"` // >0: give the entropy slice Cap bytes of spare capacity filled with 0xA5 and report them too
	Arena   bool   `json:"ar,omitempty"`  // pass the entropy in a caller-owned buffer that is REUSED (overwritten in place) by every Arena call of the same length, as a caller recycling its buffer would
	SlabOff int    `json:"so,omitempty"`  // conc mode: entropy is a window of the shared slab (offset+1)

	N int64 `json:"n,omitempty"` // word count

	S     string `json:"s,omitempty"` // mnemonic / first string, hex
	SSegs []Seg  `json:"ss,omitempty"`
	P     string `json:"p,omitempty"` // passphrase, hex
	PSegs []Seg  `json:"ps,omitempty"`

	Src    *Src `json:"src,omitempty"` // install this scripted source for the call, restore afterwards
	Shared bool `json:"sh,omitempty"`  // conc mode: use the process-wide shared scripted source (already installed)

	Lo int64 `json:"lo,omitempty"` // strrange: String() for every value in [Lo, Hi]
	Hi int64 `json:"hi,omitempty"`

	Keep  bool `json:"k,omitempty"`     // retain the returned value and re-emit its digest at keepdump
	Spin  int  `json:"sp,omitempty"`    // conc mode: busy iterations before the call (start jitter)
	Reuse bool `json:"reuse,omitempty"` // the string argument is placed, if the allocator allows, at the address the previous call's string argument had (which is garbage by then)
	Rep   int  `json:"rep,omitempty"`   // >1: the call is made Rep times in a row; the first result is reported and, in Info, the first repetition whose result differs
}

// Arg helpers -------------------------------------------------------------

func decode(h string, segs []Seg) []byte {
	if len(segs) > 0 {
		return Expand(segs)
	}
	b, err := hex.DecodeString(h)
	if err != nil {
		panic("plan: bad hex: " + err.Error())
	}
	return b
}

// Entropy returns the entropy argument (nil when ENil).
func (o *Op) Entropy() []byte {
	if o.ENil {
		return nil
	}
	b := decode(o.E, o.ESegs)
	if b == nil {
		b = []byte{}
	}
	return b
}

// Str returns the first string argument.
func (o *Op) Str() string { return string(decode(o.S, o.SSegs)) }

// Pass returns the second string argument.
func (o *Op) Pass() string { return string(decode(o.P, o.PSegs)) }

// ErrInfo is what the child can say about an error value without judging it.
type ErrInfo struct {
	WordLen  bool   `json:"wl,omitempty"` // errors.Is(err, bip39.ErrWordLen)
	EntLen   bool   `json:"el,omitempty"` // errors.Is(err, bip39.ErrEntropyLen)
	Checksum bool   `json:"cs,omitempty"` // errors.Is(err, bip39.ErrChecksumIncorrect)
	EOF      bool   `json:"eof,omitempty"`
	UEOF     bool   `json:"ueof,omitempty"`
	Custom   bool   `json:"cu,omitempty"` // errors.Is(err, the scripted source's custom error)
	Msg      string `json:"m"`            // hex of err.Error(), truncated to MsgCap bytes
	MsgLen   int    `json:"ml"`
	Type     string `json:"t,omitempty"`
}

// MsgCap bounds the number of message bytes reported.
const MsgCap = 4096

// ReadEv is one Read observed at a randomness source.
type ReadEv struct {
	Req int    `json:"q"`
	N   int    `json:"n"`
	E   string `json:"e,omitempty"`
	G   int64  `json:"g,omitempty"` // goroutine id that performed the read
	D   string `json:"d,omitempty"` // hex of delivered bytes (interposer only)
}

// Res is the event record of one call.
type Res struct {
	Env   string   `json:"env,omitempty"` // the child's VERIF_ENVTAG: runtime settings it was started with, when not the default
	I     int      `json:"i"`
	G     int      `json:"g,omitempty"`
	Out   string   `json:"o,omitempty"` // hex of returned string / bytes
	OutOK bool     `json:"ok,omitempty"`
	Out2  string   `json:"o2,omitempty"`  // seed2: second result
	Out1b string   `json:"o1b,omitempty"` // seed2: first result re-read after the second call and after clobbering
	Out3  string   `json:"o3,omitempty"`  // seed2: a third call with the same arguments, made after the second result was clobbered
	Alias bool     `json:"al,omitempty"`  // seed2: backing arrays overlap
	B     *bool    `json:"b,omitempty"`
	Err   *ErrInfo `json:"err,omitempty"`
	Err2  *ErrInfo `json:"err2,omitempty"` // encchk / newchk: CheckMnemonic's verdict on the generator's own output
	Panic string   `json:"panic,omitempty"`
	IA    string   `json:"ia,omitempty"` // caller-owned entropy buffer after the call: hex, or "sha256:<hex>" when longer than 64 bytes
	Reads []ReadEv `json:"rd,omitempty"`
	T0    int64    `json:"t0,omitempty"`
	T1    int64    `json:"t1,omitempty"`
	CPU   int64    `json:"cpu,omitempty"` // process CPU ns consumed by the call
	Dig   string   `json:"dg,omitempty"`  // strrange / keepdump digest
	Info  []string `json:"info,omitempty"`
	Agg   int      `json:"agg,omitempty"` // conc mode with Loops: this record stands for Agg identical observations of later passes

	// set by the parent only
	Died string `json:"died,omitempty"` // the child process ended while this call was in flight (stderr tail)
	Hang string `json:"hang,omitempty"` // the call exceeded its CPU budget
}

// Conc is the plan of one concurrent run.
type Conc struct {
	GoMaxProcs int    `json:"gmp"`
	Workers    [][]Op `json:"w"`
	GCPercent  int    `json:"gcpercent,omitempty"` // >0: debug.SetGCPercent before the workers start
	Shared     *Src   `json:"shared,omitempty"`    // installed before the workers start; Read is mutex protected
	// Pre is executed sequentially by the main goroutine before the workers are
	// created (a history: failing calls, unsupported values, first uses); its
	// results are reported with G == -1.
	Pre []Op `json:"pre,omitempty"`
	// Slab is ONE caller-owned buffer shared by all workers; an op with SlabOff > 0
	// passes the window Slab[SlabOff-1 : SlabOff-1+len(E)] (after copying E into it
	// before the barrier) as its entropy. Windows of different ops are disjoint.
	Slab int `json:"slab,omitempty"` // size in bytes
	// Loops > 1: every worker runs its op list Loops times. The first pass is
	// recorded call by call; for the later passes the child only keeps, per op, one
	// sample of every DISTINCT observation (result, error, panic) with a count.
	Loops int `json:"loops,omitempty"`
}
