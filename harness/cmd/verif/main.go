// Command verif is the parent: workload generators, the reference model's
// callers, the monitors, and the evidence writer. It never links the code
// under test; it observes it only through child processes (cmd/drv).
package main

import (
	"fmt"
	"os"
	"os/signal"
	"path/filepath"
	"runtime"
	"sort"
	"strconv"
	"syscall"
	"time"

	"aaverif/internal/ref"
)

var checks = map[string]func(*Env){}

func register(id string, f func(*Env)) { checks[id] = f }

func usage() {
	ids := make([]string, 0, len(checks))
	for k := range checks {
		ids = append(ids, k)
	}
	sort.Strings(ids)
	fmt.Fprintf(os.Stderr, "usage: verif check <id> [quick|thorough]   (ids: %v)\n       verif replay <file>\n       verif selftest\n", ids)
	os.Exit(exitInconclusive)
}

func newEnv(prop, tier string) *Env {
	verifDir := os.Getenv("VERIF_DIR")
	if verifDir == "" {
		verifDir = "/verif"
	}
	repo := os.Getenv("VERIF_REPO")
	if repo == "" {
		repo = "/repo"
	}
	seed := uint64(1)
	if s := os.Getenv("VERIF_SEED"); s != "" {
		v, err := strconv.ParseInt(s, 10, 64)
		if err != nil {
			fatalInconclusive("VERIF_SEED must be an integer: %v", err)
		}
		seed = uint64(v)
	}
	scratch, err := os.Getenv("VERIF_SCRATCH"), error(nil)
	if scratch != "" {
		err = os.MkdirAll(scratch, 0755)
	} else {
		scratch, err = os.MkdirTemp("", "verif-"+prop+"-")
	}
	if err != nil {
		fatalInconclusive("scratch: %v", err)
	}
	e := &Env{Prop: prop, Tier: tier, Seed: seed, Verif: verifDir, Harness: filepath.Join(verifDir, "harness"),
		Repo: repo, Scratch: scratch, Workers: runtime.NumCPU(), Start: time.Now(), drv: map[string]string{}}
	if w := os.Getenv("VERIF_WORKERS"); w != "" {
		if n, err := strconv.Atoi(w); err == nil && n > 0 {
			e.Workers = n
		}
	}
	cleanup = func() {
		if e.py != nil {
			e.py.Close()
		}
		os.RemoveAll(scratch)
	}
	sig := make(chan os.Signal, 1)
	signal.Notify(sig, syscall.SIGINT, syscall.SIGTERM)
	go func() {
		<-sig
		cleanup()
		os.Exit(exitInconclusive)
	}()
	m, err := ref.Load(filepath.Join(verifDir, "golden"))
	if err != nil {
		fatalInconclusive("golden lists: %v", err)
	}
	if err := m.SelfTest(); err != nil {
		fatalInconclusive("%v", err)
	}
	e.Model = m
	e.loadFindings()
	return e
}

func main() {
	if len(os.Args) < 2 {
		usage()
	}
	switch os.Args[1] {
	case "check":
		if len(os.Args) < 3 {
			usage()
		}
		id := os.Args[2]
		f, ok := checks[id]
		if !ok {
			usage()
		}
		tier := os.Getenv("VERIF_TIER")
		if len(os.Args) > 3 {
			tier = os.Args[3]
		}
		if tier != "thorough" {
			tier = "quick"
		}
		e := newEnv(id, tier)
		f(e)
		n := e.Violations()
		cleanup()
		if n > 0 {
			fmt.Printf("%s %s seed=%d: %d violation(s) in %.1fs\n", id, tier, e.Seed, n, time.Since(e.Start).Seconds())
			os.Exit(1)
		}
		fmt.Printf("%s %s seed=%d: held on everything explored (%.1fs); evidence in %s\n", id, tier, e.Seed, time.Since(e.Start).Seconds(), filepath.Join(e.evidenceDir(), id+".json"))
	case "replay":
		if len(os.Args) < 3 {
			usage()
		}
		os.Exit(replay(os.Args[2]))
	case "selftest":
		e := newEnv("selftest", "quick")
		selftest(e)
		cleanup()
	default:
		usage()
	}
}
