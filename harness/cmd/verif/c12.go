package main

import (
	"fmt"
	"regexp"
	"sort"
	"strings"
	"sync"
	"time"

	"aaverif/internal/plan"
	"aaverif/internal/ref"
	"aaverif/internal/rng"
)

func init() { register("C12", checkC12) }

type c12proc struct {
	stress  bool // few inputs, many goroutines, many repetitions
	id      int
	race    bool
	conc    *plan.Conc
	stagger bool
	shared  []byte // data of the shared scripted source (nil: default source)
	failing bool   // the shared source fails every read: all goroutines take the error path of NewMnemonic together
	langs   []int
}

// buildConcPlan creates the op lists of one cold-start process.
func (e *Env) buildConcPlan(id int) *c12proc {
	r := rng.New(e.Seed, "C12-proc-"+itoa(id))
	m := e.Model
	G := []int{2, 4, 8, 16, 64}[id%5]
	p := &c12proc{id: id, stagger: (id/5)%2 == 1}
	p.conc = &plan.Conc{GoMaxProcs: []int{1, 2, 4, 16, 3, 6}[(id/10)%6]}
	// languages contended in this process: a seed-chosen subset so that several
	// goroutines hit the same language first while others hit different ones
	nl := 1 + r.Intn(4)
	if id%7 == 0 {
		nl = ref.NLang
	}
	p.langs = r.Perm(ref.NLang)[:nl]
	useShared := id%3 == 1
	var sharedData []byte
	sharedNeed := 0
	for w := 0; w < G; w++ {
		var ops []plan.Op
		add := func(op plan.Op) {
			op.I = len(ops)
			ops = append(ops, op)
		}
		pure := func() {
			l := r.Intn(ref.NLang)
			switch r.Intn(3) {
			case 0:
				add(plan.Op{Fn: "enc", L: int64(l), E: hx(r.Bytes(ref.EntSizes[r.Intn(5)])), Arena: r.Intn(2) == 0})
			case 1:
				add(plan.Op{Fn: "str", L: int64([]int{l, -1, 10, 9}[r.Intn(4)])})
			case 2:
				n := int64(ref.WordCounts[r.Intn(5)])
				if useShared {
					add(plan.Op{Fn: "new", L: int64(l), N: n, Shared: true})
					sharedNeed += int(n) + int(n)/3
				} else {
					add(plan.Op{Fn: "new", L: int64(l), N: n})
				}
			}
		}
		if p.stagger && w%2 == 1 {
			// late first users: unrelated pure calls first, no synchronisation in between
			for k := 0; k < 2+r.Intn(30); k++ {
				pure()
			}
		}
		mine := append([]int(nil), p.langs...)
		// each goroutine starts with a (possibly different) language of the subset
		rot := w % len(mine)
		mine = append(mine[rot:], mine[:rot]...)
		if w%3 == 2 {
			mine = append(mine, r.Intn(ref.NLang)) // and one language of its own
		}
		for round := 0; round < 2; round++ { // every language at least twice: the second call takes the fast path
			for _, l := range mine {
				ent := r.Bytes(ref.EntSizes[r.Intn(5)])
				if r.Intn(3) == 0 {
					for z := 0; z <= r.Intn(3); z++ {
						ent[z] = 0 // leading zero bytes take the validator's padding branch
					}
				}
				s := m.Enc(ent, l)
				switch r.Intn(4) {
				case 0:
					w2 := strings.Split(s, ref.Sep(l))
					w2[len(w2)-1] = m.List[l][m.Index[l][w2[len(w2)-1]]^1]
					s = strings.Join(w2, " ")
				case 1:
					s = strings.Replace(s, ref.Sep(l), ref.Sep(l)+"qzx"+ref.Sep(l), 1)
				}
				fn := []string{"chk", "val", "chkval"}[r.Intn(3)]
				op := plan.Op{Fn: fn, L: int64(l), S: hxs(s)}
				if round == 0 && len(ops) == 0 && !p.stagger {
					op.Spin = r.Intn(40) // start jitter
				}
				add(op)
				if r.Intn(3) == 0 {
					pure()
				}
			}
		}
		// every worker calls every function at least once (and repeats some inputs
		// that other workers use too: memo-style shared state would be hit concurrently)
		common := rng.New(e.Seed, "C12-common-"+itoa(id))
		cs := m.Enc(common.Bytes(16), common.Intn(ref.NLang))
		if w < 32 || r.Intn(4) == 0 {
			add(plan.Op{Fn: "seed", S: hxs(cs), P: hxs("shared")})
			if r.Intn(2) == 0 {
				add(plan.Op{Fn: "seed", S: hxs(m.Enc(r.Bytes(16), r.Intn(ref.NLang))), P: hxs("p" + itoa(w))})
			}
		}
		ce := common.Bytes(32)
		add(plan.Op{Fn: "enc", L: int64(common.Intn(ref.NLang)), E: hx(ce)})
		add(plan.Op{Fn: "enc", L: int64(r.Intn(ref.NLang)), E: hx(r.Bytes(ref.EntSizes[r.Intn(5)]))})
		add(plan.Op{Fn: "str", L: int64(r.Intn(ref.NLang))})
		add(plan.Op{Fn: "str", L: int64(1000 + common.Intn(5))})
		add(plan.Op{Fn: "str", L: int64(-1 - r.Intn(1000))})
		for k := 0; k < 3; k++ {
			pure()
		}
		add(plan.Op{Fn: "chkval", L: 2, S: hxs("legal winner thank year wave sausage worth useful legal winner thank yellow")})
		add(plan.Op{Fn: "chk", L: int64([]int{-1, 10, 100}[r.Intn(3)]), S: hxs("abandon abandon abandon")})
		p.conc.Workers = append(p.conc.Workers, ops)
	}
	if id%3 == 2 || id%8 == 5 {
		// a sequential history before the goroutines start: failing and odd calls
		pre := []plan.Op{
			{Fn: "new", L: int64(r.Intn(ref.NLang)), N: int64(ref.WordCounts[r.Intn(5)]), Src: &plan.Src{Data: hx(r.Bytes(5))}},
			{Fn: "new", L: int64(r.Intn(ref.NLang)), N: 24, Src: &plan.Src{Data: hx(r.Bytes(40)), Steps: []plan.Step{{N: 7, E: []string{"custom", "eintr", "eof"}[r.Intn(3)]}}}},
			{Fn: "new", L: 2, N: 13},
			{Fn: "enc", L: int64(r.Intn(ref.NLang)), E: hx(r.Bytes(17))},
			{Fn: "chk", L: 100, S: hxs("abandon abandon abandon abandon abandon abandon abandon abandon abandon abandon abandon about")},
			{Fn: "chk", L: int64(p.langs[0]), S: hxs("qzx qzx qzx qzx qzx qzx qzx qzx qzx qzx qzx qzx")},
			{Fn: "str", L: -3},
			{Fn: "seed", S: hxs("x"), P: hxs("y")},
		}
		n := 1 + r.Intn(len(pre))
		for i, k := range r.Perm(len(pre))[:n] {
			op := pre[k]
			op.I = i
			p.conc.Pre = append(p.conc.Pre, op)
		}
	}
	if id%4 == 0 {
		// every worker also encodes its own window of ONE buffer shared by all of them
		off := 0
		for w := range p.conc.Workers {
			for k := 0; k < 3; k++ {
				size := ref.EntSizes[r.Intn(5)]
				op := plan.Op{I: len(p.conc.Workers[w]), Fn: "enc", L: int64(r.Intn(ref.NLang)), E: hx(r.Bytes(size)), SlabOff: off + 1}
				off += size
				p.conc.Workers[w] = append(p.conc.Workers[w], op)
			}
		}
		p.conc.Slab = off
	}
	if useShared {
		sharedData = r.Bytes(3*sharedNeed + 64) // more than needed: a consumer may request more than it uses
		p.shared = sharedData
		p.conc.Shared = &plan.Src{Data: hx(sharedData)}
		if id%12 == 7 || id%12 == 1 {
			// the error path under concurrency: a shared error value, a lazily built message
			p.failing = true
			p.conc.Shared.Steps = []plan.Step{{N: 0, E: "custom"}}
		}
	}
	return p
}

// buildStressPlan: a small pool of calls shared by all goroutines and repeated
// many times — among them the same sentence validated under the language it
// belongs to and queried under another one, the same seed arguments, the same
// entropy under several languages, the same unsupported Language values.
func (e *Env) buildStressPlan(id, loops int) *c12proc {
	r := rng.New(e.Seed, "C12-stress-"+itoa(id))
	m := e.Model
	pairs := [][2]int{{2, 7}, {0, 1}, {5, 6}, {3, 4}, {8, 9}, {2, 3}, {1, 0}, {7, 9}}
	l1, l2 := pairs[id%len(pairs)][0], pairs[id%len(pairs)][1]
	size := ref.EntSizes[id%5]
	e1, e2 := r.Bytes(size), r.Bytes(ref.EntSizes[(id+2)%5])
	if id%2 == 0 {
		e1[0], e2[0], e2[1] = 0, 0, 0 // leading zero bytes take the validator's padding branch
	}
	m1, m2 := m.Enc(e1, l1), m.Enc(e2, l2)
	spaced := func(s string, l int) string { return strings.ReplaceAll(s, ref.Sep(l), " ") }
	bad := strings.Split(spaced(m1, l1), " ")
	bad[len(bad)-1] = m.List[l1][m.Index[l1][bad[len(bad)-1]]^1]
	pool := []plan.Op{
		{Fn: "chk", L: int64(l1), S: hxs(m1)},
		{Fn: "chk", L: int64(l2), S: hxs(m2)},
		{Fn: "chk", L: int64(l2), S: hxs(m1)}, // a sentence of l1 asked under l2
		{Fn: "chk", L: int64(l1), S: hxs(m2)},
		{Fn: "val", L: int64(l1), S: hxs(m1)},
		{Fn: "val", L: int64(l2), S: hxs(m1)},
		{Fn: "chkval", L: int64(l1), S: hxs(spaced(m1, l1))},
		{Fn: "chkval", L: int64(l2), S: hxs(spaced(m2, l2))},
		{Fn: "chk", L: int64(l1), S: hxs(strings.Join(bad, " "))},
		{Fn: "chk", L: int64((l1 + 5) % ref.NLang), S: hxs(m1)},
		{Fn: "enc", L: int64(l1), E: hx(e1)},
		{Fn: "enc", L: int64(l2), E: hx(e1)},
		{Fn: "enc", L: int64(l1), E: hx(e2)},
		{Fn: "enc", L: int64(l2), E: hx(e2)},
		{Fn: "str", L: 1000},
		{Fn: "str", L: 1001},
		{Fn: "str", L: -5},
		{Fn: "str", L: int64(l1)},
		{Fn: "str", L: int64(l2)},
		{Fn: "new", L: int64(l1), N: 12},
		{Fn: "new", L: int64(l2), N: 24},
	}
	seeds := []plan.Op{
		{Fn: "seed", S: hxs(m1), P: hxs("p1")},
		{Fn: "seed", S: hxs(m1), P: hxs("p2")},
		{Fn: "seed", S: hxs(m2), P: hxs("p1")},
		// the same concatenation split at different places
		{Fn: "seed", S: hxs(m1), P: hxs(" tail")},
		{Fn: "seed", S: hxs(m1 + " "), P: hxs("tail")},
		{Fn: "seed", S: hxs(m1 + " tail"), P: hxs("")},
	}
	p := &c12proc{id: 100000 + id, stress: true}
	p.conc = &plan.Conc{GoMaxProcs: []int{16, 4, 8, 2, 5, 12}[id%6], Loops: loops}
	G := []int{16, 8, 12}[id%3]
	if id%8 == 5 || id%8 == 2 {
		// seed stress: every goroutine derives the same few seeds, and encodes, again and again
		p.conc.Loops = loops / 20
		if p.conc.Loops < 12 {
			p.conc.Loops = 12
		}
		for w := 0; w < G; w++ {
			ops := []plan.Op{seeds[w%6], pool[10+w%4], seeds[(w+1)%6], pool[(w*7)%len(pool)], seeds[(w+3)%6], pool[14+w%5], seeds[(w+4)%6]}
			for i := range ops {
				ops[i].I = i
			}
			p.conc.Workers = append(p.conc.Workers, ops)
		}
		p.langs = []int{l1, l2}
		return p
	}
	for w := 0; w < G; w++ {
		var ops []plan.Op
		n := 6 + r.Intn(6)
		// the first four pool entries (own-language and cross-language queries of the
		// same two sentences) are in every worker's list, in a rotated order
		for k := 0; k < 4; k++ {
			ops = append(ops, pool[(k+w)%4])
		}
		for k := 0; k < n; k++ {
			ops = append(ops, pool[r.Intn(len(pool))])
		}
		if w%4 == 0 {
			ops = append(ops, seeds[r.Intn(3)])
		}
		for i := range ops {
			ops[i].I = i
		}
		p.conc.Workers = append(p.conc.Workers, ops)
	}
	if id%2 == 1 {
		// a failed NewMnemonic (short source) before the goroutines start
		p.conc.Pre = []plan.Op{{I: 0, Fn: "new", L: int64(l1), N: 24, Src: &plan.Src{Data: hx(r.Bytes(9))}}, {I: 1, Fn: "new", L: int64(l2), N: 11}}
	}
	p.langs = []int{l1, l2}
	return p
}

var raceFrameRe = regexp.MustCompile(`(?m)^\s+(\S+)\(.*\)\n\s+(\S+):(\d+)`)

// raceBlocks splits a race log into report blocks.
func raceBlocks(log string) []string {
	var out []string
	parts := strings.Split(log, "WARNING: DATA RACE")
	for _, p := range parts[1:] {
		if i := strings.Index(p, "=================="); i >= 0 {
			p = p[:i]
		}
		out = append(out, "WARNING: DATA RACE"+p)
	}
	return out
}

// raceSignature de-duplicates reports: function names of the two access
// stacks with line numbers stripped.
func raceSignature(block string) string {
	var fs []string
	for _, m := range raceFrameRe.FindAllStringSubmatch(block, -1) {
		fs = append(fs, m[1])
		if len(fs) >= 8 {
			break
		}
	}
	return strings.Join(fs, " <- ")
}

func checkC12(e *Env) {
	raceDrv := e.BuildDrv(true)
	plainDrv := e.BuildDrv(false)
	nproc := e.pick(48, 1200)
	var mu sync.Mutex
	obs := newCounter()
	overlap := newCounter()
	states := newDistinct()
	dist := newDistinct()
	smp := newSamples(5)
	raceSigs := map[string]int{}
	totalOps, goroutines := 0, 0
	maxOverlap := 0
	logsScanned := 0

	// sequential replay results are cached per process by re-running the same op lists one worker after the other
	judge := func(p *c12proc, useRace bool) {
		drv := raceDrv
		if !useRace {
			drv = plainDrv
		}
		cr := e.RunConc(drv, p.conc, fmt.Sprintf("%d-%v", p.id, useRace), nil, 10*time.Minute)
		mu.Lock()
		logsScanned += len(cr.RaceLogs)
		mu.Unlock()
		viol := func(what string, detail any) {
			e.Violate(&Violation{What: fmt.Sprintf("cold-start process %d (%d goroutines, GOMAXPROCS %d, race detector %v): %s", p.id, len(p.conc.Workers), p.conc.GoMaxProcs, useRace, what),
				Conc: p.conc, Race: useRace, Detail: detail})
		}
		// 1. race detector reports
		harnessOnly := 0
		for _, lg := range cr.RaceLogs {
			for _, b := range raceBlocks(lg) {
				sig := raceSignature(b)
				mu.Lock()
				raceSigs[sig]++
				first := raceSigs[sig] == 1
				mu.Unlock()
				if strings.Contains(b, "github.com/islishude/bip39") || strings.Contains(b, e.Repo+"/") {
					if first {
						viol("the race detector reports a data race in the package: "+oneLine(sig, 300), b)
					}
				} else {
					harnessOnly++
				}
			}
		}
		if harnessOnly > 0 {
			fatalInconclusive("C12: the race detector reports a race in the harness itself (no frame of the package): fix the harness")
		}
		if v, inc := cr.hang(); v != "" {
			viol(v, cr.Stderr)
			return
		} else if inc != "" {
			fatalInconclusive("C12: cold-start process %d: %s", p.id, inc)
		}
		if strings.Contains(cr.Stderr, "fatal error:") || cr.ExitErr != "" && len(cr.Results) == 0 {
			viol("the process died: "+oneLine(cr.Stderr+" "+cr.ExitErr, 400), cr.Stderr)
			return
		}
		if cr.Trailer == nil {
			if strings.Contains(cr.Stderr, "DATA RACE") {
				return // already reported
			}
			viol("the process produced no complete result set: "+oneLine(cr.Stderr+" "+cr.ExitErr, 400), cr.Stderr)
			return
		}
		// index results by (worker, i)
		byWorker := make([][]plan.Res, len(p.conc.Workers))
		var aggregated []plan.Res
		for _, r := range cr.Results {
			if r.G == -1 {
				op := &p.conc.Pre[r.I]
				if r.Panic != "" {
					viol(fmt.Sprintf("sequential call %d %s before the goroutines started panicked: %s", r.I, fnName(op.Fn), oneLine(r.Panic, 300)), r)
					return
				}
				if why := e.confirmedDeviation(drv, op, &r, e.refEval(op)); why != "" {
					viol(fmt.Sprintf("sequential call %d %s before the goroutines started: %s", r.I, fnName(op.Fn), why), map[string]any{"op": op, "observed": r})
					return
				}
				obs.Inc("sequential_history_calls_before_the_barrier")
				continue
			}
			if r.Agg > 0 {
				aggregated = append(aggregated, r)
				continue
			}
			byWorker[r.G] = append(byWorker[r.G], r)
		}
		// observations of the repeated passes: one sample per distinct result and op
		for i := range aggregated {
			r := &aggregated[i]
			op := &p.conc.Workers[r.G][r.I]
			obs.Add("stress_calls_in_repeated_passes", r.Agg)
			if r.Panic != "" {
				viol(fmt.Sprintf("worker %d %s panicked in a repeated pass: %s", r.G, fnName(op.Fn), oneLine(r.Panic, 300)), r)
				return
			}
			if why := e.confirmedDeviation(drv, op, r, e.refEval(op)); why != "" {
				viol(fmt.Sprintf("worker %d, %s(lang %d) repeated under contention, returned in %d of its calls something it does not return when run alone: %s", r.G, fnName(op.Fn), op.L, r.Agg, why), map[string]any{"op": op, "observed": r})
				return
			}
		}
		// goroutine ids for the shared source's read log
		gidOf := map[int64]int{}
		for _, inf := range cr.Trailer.Info {
			var w int
			var g int64
			if n, _ := fmt.Sscanf(inf, "worker%d=goid%d", &w, &g); n == 2 {
				gidOf[g] = w
			}
		}
		// bytes the shared source delivered to each worker, in order
		delivered := make([][]byte, len(p.conc.Workers))
		if p.shared != nil {
			off := 0
			for _, ev := range cr.Trailer.Reads {
				w, ok := gidOf[ev.G]
				if !ok {
					viol("the shared randomness source was read by a goroutine that is not a worker", ev)
					return
				}
				delivered[w] = append(delivered[w], p.shared[off:off+ev.N]...)
				off += ev.N
			}
			obs.Add("shared_source_bytes_delivered", off)
		}
		// 2. every result equals the reference model
		type firstUse struct{ t0, t1 int64 }
		firsts := map[int64][]firstUse{}
		for w, ops := range p.conc.Workers {
			if len(byWorker[w]) != len(ops) {
				viol(fmt.Sprintf("worker %d returned %d of %d results", w, len(byWorker[w]), len(ops)), nil)
				return
			}
			seenLang := map[int64]bool{}
			consumed := 0
			for i := range ops {
				op, r := &ops[i], &byWorker[w][i]
				if r.Panic != "" {
					viol(fmt.Sprintf("worker %d call %d %s panicked: %s", w, i, fnName(op.Fn), oneLine(r.Panic, 300)), r)
					return
				}
				x := e.refEval(op)
				if op.Fn == "new" && op.Shared && validCount64(op.N) && p.failing {
					// what such a call must return is C06's subject; here the race detector watches
					// the error path taken by all goroutines at once (panics were handled above)
					obs.Inc("failing_shared_source_calls")
					dist.Add(soloKey(*op))
					continue
				}
				if op.Fn == "new" && op.Shared && validCount64(op.N) {
					need := int(op.N) + int(op.N)/3
					// exactly-once: the sentence encodes a slice of the bytes delivered to this
					// goroutine, after the slices of its earlier calls (the position is searched:
					// a consumer may read more than it uses)
					got := string(unhex(r.Out))
					found := -1
					for k := consumed; k+need <= len(delivered[w]); k++ {
						if e.Model.Enc(delivered[w][k:k+need], int(op.L)) == got {
							found = k
							break
						}
					}
					if found < 0 || r.Err != nil {
						viol(fmt.Sprintf("worker %d call %d: NewMnemonic(%d, %s) = %s (err %s) does not encode any %d consecutive bytes the shared source delivered to this goroutine after its previous call", w, i, op.N, ref.Names[op.L], preview(got), errText(r.Err), need), r)
						return
					}
					if found != consumed {
						obs.Inc("shared_source_calls_that_skipped_bytes(over-read)")
					}
					consumed = found + need
					x = refExpect{defined: true, errClass: "nil"}
					obs.Inc("shared_source_calls_matched_exactly_once")
				}
				why := ""
				if op.Fn == "new" && op.Shared {
					why = e.judgeAgainstRef(op, r, x) // the bytes this goroutine drew were matched above
				} else {
					why = e.confirmedDeviation(drv, op, r, x)
				}
				if why != "" {
					viol(fmt.Sprintf("worker %d call %d %s(lang %d) does not return what it returns when run alone: %s", w, i, fnName(op.Fn), op.L, why), map[string]any{"op": op, "observed": r})
					return
				}
				if (op.Fn == "chk" || op.Fn == "val" || op.Fn == "chkval") && op.L >= 0 && op.L < ref.NLang && !seenLang[op.L] {
					seenLang[op.L] = true
					firsts[op.L] = append(firsts[op.L], firstUse{r.T0, r.T1})
				}
				dist.Add(soloKey(*op))
			}
			if p.shared != nil && consumed != len(delivered[w]) {
				obs.Add("shared_source_bytes_delivered_but_not_encoded(over-read)", len(delivered[w])-consumed)
			}
		}
		// cold-start overlap degree per language: goroutines whose first call on the
		// language began before the first such call returned
		for l, fs := range firsts {
			minT1 := fs[0].t1
			for _, f := range fs {
				if f.t1 < minT1 {
					minT1 = f.t1
				}
			}
			deg := 0
			for _, f := range fs {
				if f.t0 < minT1 {
					deg++
				}
			}
			overlap.Inc(fmt.Sprintf("degree-%02d", deg))
			states.Add(itoa(int(l)), itoa(deg), itoa(len(p.conc.Workers)), fmt.Sprint(p.stagger))
			mu.Lock()
			if deg > maxOverlap {
				maxOverlap = deg
			}
			mu.Unlock()
		}
		if p.stress {
			mu.Lock()
			totalOps += len(cr.Results)
			goroutines += len(p.conc.Workers)
			mu.Unlock()
			obs.Inc("processes")
			obs.Inc("stress_processes")
			if useRace {
				obs.Inc("processes_under_race_detector")
			}
			return
		}
		// 3. the same op lists replayed sequentially in another fresh process
		var seq []plan.Op
		for _, ops := range p.conc.Workers {
			for _, op := range ops {
				if op.Fn == "new" {
					continue // source bytes differ by construction
				}
				op.I = len(seq)
				seq = append(seq, op)
			}
		}
		seqRes, died := e.RunProc(drv, seq, nil, 0)
		if died != "" {
			viol("sequential replay of the same calls died: "+oneLine(died, 300), nil)
			return
		}
		k := 0
		for w, ops := range p.conc.Workers {
			for i, op := range ops {
				if op.Fn == "new" {
					continue
				}
				if why := sameObservation(&byWorker[w][i], &seqRes[k]); why != "" {
					viol(fmt.Sprintf("worker %d call %d %s differs between concurrent and sequential execution: %s", w, i, fnName(op.Fn), why), map[string]any{"op": op, "concurrent": byWorker[w][i], "sequential": seqRes[k]})
					return
				}
				k++
			}
		}
		obs.Add("results_compared_with_sequential_replay", k)
		mu.Lock()
		totalOps += len(cr.Results)
		goroutines += len(p.conc.Workers)
		mu.Unlock()
		obs.Inc("processes")
		if useRace {
			obs.Inc("processes_under_race_detector")
		}
		smp.Add(map[string]any{"process": p.id, "goroutines": len(p.conc.Workers), "gomaxprocs": p.conc.GoMaxProcs, "staggered": p.stagger, "contended_languages": p.langs, "shared_source": p.shared != nil,
			"worker0": summarize(p.conc.Workers[0], 8)})
	}

	// the race-detector children are CPU heavy (up to 64 goroutines each): run a few at a time
	parallel(nproc, max(2, e.Workers/4), func(i int) {
		p := e.buildConcPlan(i)
		useRace := true
		if (e.Thorough() && i%2 == 1) || i%8 == 7 {
			useRace = false // without the detector an unsynchronised map build dies or answers wrongly
		}
		judge(p, useRace)
	})

	// stress processes: few inputs, many goroutines, many repetitions
	nstress := e.pick(8, 96)
	parallel(nstress, max(2, e.Workers/4), func(i int) {
		if i%4 == 3 {
			judge(e.buildStressPlan(i, e.pick(120, 300)), true)
		} else {
			judge(e.buildStressPlan(i, e.pick(1500, 4000)), false)
		}
	})

	sigs := make([]string, 0, len(raceSigs))
	for s, n := range raceSigs {
		sigs = append(sigs, fmt.Sprintf("%dx %s", n, s))
	}
	sort.Strings(sigs)
	if e.Violations() == 0 && maxOverlap < 2 {
		fatalInconclusive("C12: no process reached a cold-start overlap of 2 goroutines on any language")
	}
	e.WriteEvidence("exploration", map[string]any{
		"evaluations":                   totalOps,
		"distinct_nontrivial":           states.Len(),
		"rule":                          "a case is one cold-start process: G in {2,4,8,16,64} goroutines released by one barrier run seed-chosen op lists (CheckMnemonic/IsMnemonicValid on a contended subset of languages, every language at least twice per goroutine, mixed with NewMnemonicByEntropy, NewMnemonic on the default source or on a shared mutex-protected scripted source installed before the goroutines start, MnemonicToSeed, Language.String, unsupported languages), GOMAXPROCS in {1,2,4,16}, a third of the processes preceded by a short sequential history of failing and odd calls (failing randomness sources, invalid sizes, unsupported languages), half of the processes with simultaneous first uses and half with staggered late first users; plus stress processes in which 8-16 goroutines repeat a small shared pool of calls 120-4000 times (the same sentence validated under its own language and queried under another, identical seed arguments, the same entropy under several languages, the same unsupported Language values), every distinct observation of which is compared with the reference; oracles: Go race detector (reports read from log files, de-duplicated by stack signature), per-call reference model, exactly-once accounting of shared-source bytes per goroutine, and sequential replay of the same op lists in another fresh process; non-trivial and distinct = distinct (language, cold-overlap degree, goroutine count, staggered) states observed, where the overlap degree is the number of goroutines whose first call on the language began before the first such call returned",
		"samples":                       smp.List(),
		"processes":                     obs.Get("processes"),
		"goroutines":                    goroutines,
		"observations":                  obs.Map(),
		"cold_overlap_degree_histogram": overlap.Map(),
		"max_cold_overlap_degree":       maxOverlap,
		"race_reports":                  len(raceSigs),
		"race_report_signatures":        sigs,
		"race_log_files_scanned":        logsScanned,
		"distinct_calls":                dist.Len(),
	}, []string{
		"the Go race detector's happens-before analysis (reports are schedule independent for the accesses that occur)",
		"the schedules are those the OS produces on this machine; timestamps are evidence of overlap, never a verdict",
		"reference model as in C01/C03/C04",
	})
}

// concurrentSmoke is the concurrent flavour of a per-function monitor: a few cold-start
// processes in which 8-16 goroutines repeat a small pool of calls; every distinct
// observation is judged by the calling monitor's own oracle. (C12 is the full treatment; this only makes
// sure that a defect which needs concurrency to show is also seen by the check of the
// property it breaks.)
func (e *Env) concurrentSmoke(drv, label string, pool []plan.Op, procs, loops int, judge func(op *plan.Op, r *plan.Res) string) (calls int) {
	var mu sync.Mutex
	parallel(procs, max(1, e.Workers/4), func(pi int) {
		r := rng.New(e.Seed, label+"-conc-"+itoa(pi))
		c := &plan.Conc{GoMaxProcs: []int{16, 4, 2, 8, 3, 6}[pi%6], Loops: loops}
		G := []int{8, 16, 12}[pi%3]
		for w := 0; w < G; w++ {
			var ops []plan.Op
			for k := 0; k < 8; k++ {
				op := pool[(w+k*3+r.Intn(2))%len(pool)]
				op.I = k
				ops = append(ops, op)
			}
			c.Workers = append(c.Workers, ops)
		}
		cr := e.RunConc(drv, c, label+"-smoke-"+itoa(pi), nil, 10*time.Minute)
		viol := func(what string, detail any) {
			e.Violate(&Violation{What: fmt.Sprintf("%d goroutines calling concurrently from a cold start (GOMAXPROCS %d): %s", G, c.GoMaxProcs, what), Conc: c, Detail: detail})
		}
		own := smokeOwnFuncs[label]
		if v, inc := cr.hang(); v != "" {
			// calls that never return are this monitor's business when one of its own
			// functions is among the blocked ones
			if len(own) > 0 && !ownBlocked(v, own) {
				mu.Lock()
				smokeBystanderCrashes++
				mu.Unlock()
				return
			}
			viol(v, cr.Stderr)
			return
		} else if inc != "" {
			fatalInconclusive("%s: concurrent process: %s", label, inc)
		}
		if cr.Trailer == nil {
			// a crash is this monitor's business only when it happened inside a function its
			// property speaks about (C12 and C14 are about every function)
			if len(own) > 0 && !crashInside(cr.Stderr, own) {
				mu.Lock()
				smokeBystanderCrashes++
				mu.Unlock()
				return
			}
			viol("the process produced no complete result set: "+oneLine(cr.Stderr+" "+cr.ExitErr, 400), cr.Stderr)
			return
		}
		for i := range cr.Results {
			res := &cr.Results[i]
			op := &c.Workers[res.G][res.I]
			n := 1
			if res.Agg > 0 {
				n = res.Agg
			}
			if res.Panic != "" {
				if len(own) > 0 && !crashInside(res.Panic, own) {
					continue
				}
				viol(fmt.Sprintf("%s panicked: %s", fnName(op.Fn), oneLine(res.Panic, 300)), res)
				return
			}
			if judge != nil {
				// the calling monitor's own oracle; calls it does not judge are only bystanders
				if why := judge(op, res); why != "" {
					viol(fmt.Sprintf("%s(lang %d), in %d of its calls: %s", fnName(op.Fn), op.L, n, why), map[string]any{"op": op, "observed": res})
					return
				}
			}
			mu.Lock()
			calls += n
			mu.Unlock()
		}
	})
	return calls
}

// smokeOwnFuncs names, per monitor, the exported functions its property speaks about: a
// crash under concurrency is reported by that monitor only when the crashing goroutine's
// stack passes through one of them.
var smokeOwnFuncs = map[string][]string{
	"C01": {"bip39.NewMnemonicByEntropy"},
	"C02": {"bip39.CheckMnemonic", "bip39.IsMnemonicValid"},
	"C03": {"-"}, // C03 constrains what acceptance implies; a call that returns nothing accepts nothing
	"C04": {"bip39.MnemonicToSeed"},
	"C05": {"-"}, // a call that returns no mnemonic is not C05's subject
	"C08": {"-"}, // C08 is about which words the API shows and knows; a crash shows none
	"C09": {"bip39.NewMnemonicByEntropy", "bip39.NewMnemonic"},
	"C10": {"-"}, // C10 and C11 compare verdicts and seeds; a call that returns nothing gives neither
	"C11": {"-"},
	"C15": {"bip39.CheckMnemonic"},
	"C16": {"bip39.Language.String"},
}

var smokeBystanderCrashes int

// ownBlocked reports whether the summary of blocked goroutines names one of the functions.
func ownBlocked(summary string, funcs []string) bool {
	for _, f := range funcs {
		if f != "-" && strings.Contains(summary, f) {
			return true
		}
	}
	return false
}

// crashInside reports whether the stack of the goroutine that crashed (the first
// "[running]" goroutine of a fatal error or panic dump, or the whole text of a recovered
// panic's stack) passes through one of the functions.
func crashInside(dump string, funcs []string) bool {
	blk := dump
	if i := strings.Index(dump, "[running]"); i >= 0 {
		blk = dump[i:]
		if j := strings.Index(blk, "\n\ngoroutine "); j >= 0 {
			blk = blk[:j]
		}
	}
	for _, f := range funcs {
		if strings.Contains(blk, f+"(") {
			return true
		}
	}
	return false
}

// smokePool builds the small pool of calls concurrentSmoke repeats; kind selects the
// function the calling monitor is about (the others are mixed in as bystanders).
func (e *Env) smokePool(label, kind string) []plan.Op {
	r := rng.New(e.Seed, label+"-smokepool")
	m := e.Model
	var enc, chk, seed, str []plan.Op
	for k := 0; k < 10; k++ {
		l := (k * 3) % ref.NLang
		ent := r.Bytes(ref.EntSizes[k%5])
		if k%3 == 0 {
			ent[0], ent[1] = 0, 0
		}
		enc = append(enc, plan.Op{Fn: "enc", L: int64(l), E: hx(ent), Arena: k%2 == 0})
		s := m.Enc(ent, l)
		w := strings.Split(s, ref.Sep(l))
		chk = append(chk, plan.Op{Fn: []string{"chk", "val", "chkval"}[k%3], L: int64(l), S: hxs(s)})
		bad := append([]string(nil), w...)
		bad[len(bad)-1] = m.List[l][m.Index[l][bad[len(bad)-1]]^1]
		chk = append(chk, plan.Op{Fn: "chk", L: int64(l), S: hxs(strings.Join(bad, " "))})
		if k%2 == 0 {
			chk = append(chk, plan.Op{Fn: "chk", L: int64((l + 1) % ref.NLang), S: hxs(s)})
			unk := append([]string(nil), w...)
			unk[k%len(unk)] = "qzx" + itoa(k)
			chk = append(chk, plan.Op{Fn: "chk", L: int64(l), S: hxs(strings.Join(unk, " "))})
		}
		if k < 4 {
			seed = append(seed, plan.Op{Fn: "seed", S: hxs(s), P: hxs([]string{"", "TREZOR", "pa\u00df\uff57ord", " tail"}[k])})
			// the same arguments in another spelling (U+3000 between the words)
			seed = append(seed, plan.Op{Fn: "seed", S: hxs(strings.Join(w, "\u3000")), P: hxs([]string{"", "TREZOR", "pa\u00df\uff57ord", " tail"}[k])})
		}
		if k%2 == 1 {
			chk = append(chk, plan.Op{Fn: "chk", L: int64(l), S: hxs(strings.Join(w, "\u3000"))})
			chk = append(chk, plan.Op{Fn: "chk", L: int64(l), S: hxs(strings.Join(bad, "\u00a0"))})
		}
		str = append(str, plan.Op{Fn: "str", L: int64(l)}, plan.Op{Fn: "str", L: int64(1000 + k)}, plan.Op{Fn: "str", L: int64(-1 - k)})
	}
	var pool []plan.Op
	switch kind {
	case "enc":
		// bystanders: validations and NewMnemonic on the default source (the other generator)
		pool = append(append(pool, enc...), chk[:4]...)
		for k, n := range []int64{12, 24, 18} {
			pool = append(pool, plan.Op{Fn: "new", L: int64((k * 4) % ref.NLang), N: n})
		}
	case "chk":
		// bystanders: both generators (they share the checksum code with the validator)
		pool = append(append(pool, chk...), enc...)
		pool = append(pool, plan.Op{Fn: "new", L: 0, N: 12}, plan.Op{Fn: "new", L: 5, N: 24})
	case "seed":
		pool = append(append(append(pool, seed...), enc[:2]...), chk[:2]...)
	case "str":
		// with the first validation of every language as bystanders (the lazily built tables
		// are the package's only other state keyed by Language)
		pool = append(append(pool, str...), enc[:2]...)
		for l := 0; l < ref.NLang; l++ {
			pool = append(pool, plan.Op{Fn: "chk", L: int64(l), S: hxs(m.Enc(r.Bytes(16), l))})
		}
	}
	return pool
}
