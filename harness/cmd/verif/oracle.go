package main

import (
	"fmt"
	"strings"
	"sync"

	"aaverif/internal/plan"
	"aaverif/internal/ref"
	"aaverif/internal/rng"
)

var (
	soloMu    sync.Mutex
	soloCache = map[string]*plan.Res{}
	soloRuns  int
)

// Solo executes one call alone, as the first call of a fresh process (cached per
// distinct call). It is the yardstick of "what the call returns when run alone".
func (e *Env) Solo(drv string, op plan.Op) *plan.Res {
	k := drv + "|" + soloKey(op)
	soloMu.Lock()
	if r, ok := soloCache[k]; ok {
		soloMu.Unlock()
		return r
	}
	soloMu.Unlock()
	op.I, op.Keep, op.Buf, op.Shared, op.SlabOff = 0, false, 0, false, 0
	res, died := e.RunProc(drv, []plan.Op{op}, nil, 0)
	var r *plan.Res
	if len(res) == 1 {
		r = &res[0]
	} else {
		r = &plan.Res{Died: died}
	}
	soloMu.Lock()
	soloCache[k] = r
	soloRuns++
	soloMu.Unlock()
	return r
}

// confirmedDeviation decides whether an observation made inside a history or
// under concurrency differs from what the same call returns alone. The reference
// model is only a cheap filter: when it is satisfied nothing more is done; when
// it is not (or does not cover the call) the call is executed alone and the two
// observations are compared. A call that is wrong in the same way when run alone
// is some other property's business, not a history or concurrency effect.
func (e *Env) confirmedDeviation(drv string, op *plan.Op, r *plan.Res, x refExpect) string {
	if x.defined && e.judgeAgainstRef(op, r, x) == "" {
		return ""
	}
	if op.Fn == "new" && op.Src == nil && !op.Shared && validCount64(op.N) {
		// default source: the sentences are random and cannot be compared, and whether a random
		// sentence is valid is a matter of the lists and the checksum (other properties); what
		// must not depend on history or concurrency is the shape of the outcome: error or not,
		// and how many words
		s := e.Solo(drv, *op)
		if s.Died != "" {
			return ""
		}
		if a, b := errClassOf(r.Err), errClassOf(s.Err); a != b {
			return fmt.Sprintf("on the default source the call returns error class %s (%s) here and %s (%s) when run alone", a, errText(r.Err), b, errText(s.Err))
		}
		if a, b := len(strings.Fields(string(unhex(r.Out)))), len(strings.Fields(string(unhex(s.Out)))); a != b {
			return fmt.Sprintf("on the default source the call returns %d words here and %d when run alone", a, b)
		}
		return ""
	}
	s := e.Solo(drv, *op)
	if s.Died != "" {
		return "" // the call alone kills the process: C14's business
	}
	if why := sameObservation(r, s); why != "" {
		return "differs from the same call executed alone in a fresh process: " + why
	}
	return ""
}

// RefSeed is R-SEED: PBKDF2 (written out in package ref) over CPython's NFKD
// of both arguments. ok is false when an argument is not valid UTF-8.
func (e *Env) RefSeed(m, p string) ([]byte, bool) {
	n, ok := e.NFKD([]string{m, p})
	if !ok[0] || !ok[1] {
		return nil, false
	}
	return ref.Seed([]byte(n[0]), []byte(n[1])), true
}

func seedSelfTest(e *Env, m, p, wantHex string) error {
	s, ok := e.RefSeed(m, p)
	if !ok || hx(s) != wantHex {
		return fmt.Errorf("reference seed self-test failed: %x", s)
	}
	return nil
}

// RefValidate is R-VAL: the reference verdict on an arbitrary string.
// It returns the status and the tokens of the NFKD form.
func (e *Env) RefValidate(s string, lang int) (ref.Status, []string) {
	n, ok := e.NFKD1(s)
	if !ok {
		// not valid UTF-8: it has no NFKD form made of list words
		return ref.UnknownWord, nil
	}
	toks := strings.Fields(n)
	_, st, _ := e.Model.Dec(toks, lang)
	return st, toks
}

// generatorAtFault reports whether a crash-type outcome of a generate-then-use
// call (encchk, newchk, genhold) belongs to the generating step: the panic came
// before anything was returned, or the generating call executed alone fails too.
// Checks whose property speaks about "the returned mnemonic" use it to leave
// such calls to the properties that decide whether the generator may fail.
func (e *Env) generatorAtFault(drv string, op *plan.Op, r *plan.Res) bool {
	if r.Panic != "" && r.Out == "" && r.Died == "" && r.Hang == "" {
		return true
	}
	g := *op
	switch op.Fn {
	case "enc":
		return true
	case "encchk", "genhold":
		g.Fn, g.P, g.PSegs = "enc", "", nil
	case "newchk":
		g.Fn = "new"
	default:
		return false
	}
	return failure(e.Solo(drv, g)) != ""
}

// ownEncoding is what the monitored tree's NewMnemonicByEntropy returns for the
// entropy when called alone in a fresh process ("" when it fails).
func (e *Env) ownEncoding(drv string, ent []byte, lang int) string {
	s := e.Solo(drv, plan.Op{Fn: "enc", L: int64(lang), E: hx(ent)})
	if failure(s) != "" || s.Err != nil {
		return ""
	}
	return string(unhex(s.Out))
}

// addressReuse runs processes made of call pairs: the first call's string argument becomes
// garbage, is collected, and the second call's argument (same byte length) is allocated, if
// the allocator allows, at the very same address. judge sees every second call together with
// whether the address was really reused. Returns (pairs, pairs with the address reused).
func (e *Env) addressReuse(drv, label string, procs, pairsPerProc int, mk func(r *rng.R, k int) (plan.Op, plan.Op, bool), judge func(ops []plan.Op, i int, r *plan.Res, reused bool)) (int, int) {
	var mu sync.Mutex
	pairs, hits := 0, 0
	env := []string{"GOMAXPROCS=1", "VERIF_ENVTAG=GOMAXPROCS=1"}
	parallel(procs, e.Workers, func(pi int) {
		r := rng.New(e.Seed, label+"-addr-"+itoa(pi))
		var ops []plan.Op
		for k := 0; k < pairsPerProc; k++ {
			a, b, ok := mk(r, k)
			if !ok {
				continue
			}
			a.I, b.I, b.Reuse = len(ops), len(ops)+1, true
			ops = append(ops, a, b)
		}
		res, died := e.RunProc(drv, ops, env, 0)
		if died != "" || len(res) != len(ops) {
			return
		}
		for i := 1; i < len(res); i += 2 {
			hit := false
			for _, inf := range res[i].Info {
				hit = hit || inf == "address-reused"
			}
			mu.Lock()
			pairs++
			if hit {
				hits++
			}
			mu.Unlock()
			if res[i].Panic == "" {
				judge(ops, i, &res[i], hit)
			}
		}
	})
	return pairs, hits
}
