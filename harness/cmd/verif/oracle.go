package main

import (
	"fmt"
	"strings"

	"aaverif/internal/ref"
)

// RefSeed is R-SEED: PBKDF2 (written out in package ref) over CPython's NFKD
// of both arguments. ok is false when an argument is not valid UTF-8.
func (e *Env) RefSeed(m, p string) ([]byte, bool) {
	n, ok := e.NFKD([]string{m, p})
	if !ok[0] || !ok[1] {
		return nil, false
	}
	return ref.Seed([]byte(n[0]), []byte(n[1])), true
}

func seedSelfTest(e *Env, m, p, wantHex string) error {
	s, ok := e.RefSeed(m, p)
	if !ok || hx(s) != wantHex {
		return fmt.Errorf("reference seed self-test failed: %x", s)
	}
	return nil
}

// RefValidate is R-VAL: the reference verdict on an arbitrary string.
// It returns the status and the tokens of the NFKD form.
func (e *Env) RefValidate(s string, lang int) (ref.Status, []string) {
	n, ok := e.NFKD1(s)
	if !ok {
		// not valid UTF-8: it has no NFKD form made of list words
		return ref.UnknownWord, nil
	}
	toks := strings.Fields(n)
	_, st, _ := e.Model.Dec(toks, lang)
	return st, toks
}
