package main

import (
	"bytes"
	"fmt"
	"strings"
	"sync"

	"aaverif/internal/plan"
	"aaverif/internal/ref"
	"aaverif/internal/rng"
)

// Judges for concurrentSmoke: each per-function monitor judges, under
// concurrency, exactly what it judges sequentially — nothing more.

func isChk(fn string) bool { return fn == "chk" || fn == "val" || fn == "chkval" }

func supportedLang(l int64) bool { return l >= 0 && l < ref.NLang }

func acceptedBy(op *plan.Op, r *plan.Res) bool {
	if op.Fn == "val" {
		return r.B != nil && *r.B
	}
	return r.Err == nil
}

// C01: the returned sentence is the BIP39 sentence.
func (e *Env) smokeEncExact() func(*plan.Op, *plan.Res) string {
	return func(op *plan.Op, r *plan.Res) string {
		if op.Fn != "enc" || !supportedLang(op.L) || !validEntLen(len(op.Entropy())) {
			return ""
		}
		if want := e.Model.Enc(op.Entropy(), int(op.L)); string(unhex(r.Out)) != want || r.Err != nil {
			return fmt.Sprintf("under concurrency NewMnemonicByEntropy(%x) is not the BIP39 sentence: %s", op.Entropy(), describeMismatch(string(unhex(r.Out)), want, int(op.L)))
		}
		return ""
	}
}

// C05: the returned sentence decodes to the entropy.
func (e *Env) smokeEncDecode() func(*plan.Op, *plan.Res) string {
	return func(op *plan.Op, r *plan.Res) string {
		if op.Fn != "enc" || !supportedLang(op.L) || !validEntLen(len(op.Entropy())) || r.Err != nil {
			return ""
		}
		if back, ok := e.Model.DecodeLoose(strings.Fields(string(unhex(r.Out))), int(op.L)); !ok || !bytes.Equal(back, op.Entropy()) {
			return fmt.Sprintf("under concurrency the mnemonic for entropy %x decodes to %x", op.Entropy(), back)
		}
		return ""
	}
}

// C02: a reference-valid sentence is accepted.
func (e *Env) smokeValidAccepted() func(*plan.Op, *plan.Res) string {
	return func(op *plan.Op, r *plan.Res) string {
		if !isChk(op.Fn) || !supportedLang(op.L) {
			return ""
		}
		if st, _ := e.RefValidate(op.Str(), int(op.L)); st == ref.OK && !acceptedBy(op, r) {
			return fmt.Sprintf("under concurrency a valid %s mnemonic is rejected (%s): %s", ref.Names[op.L], errText(r.Err), preview(op.Str()))
		}
		return ""
	}
}

// C08: the words emitted are the list words of their indices, and validation knows every
// list word. A valid sentence rejected for its CHECKSUM is ambiguous under concurrency (a
// word mapped to a wrong index, or the checksum computed wrongly) and is left to C02/C12.
func (e *Env) smokeListWords(ambiguous *counter) func(*plan.Op, *plan.Res) string {
	return func(op *plan.Op, r *plan.Res) string {
		if !supportedLang(op.L) {
			return ""
		}
		lang := int(op.L)
		switch {
		case op.Fn == "enc" && validEntLen(len(op.Entropy())) && r.Err == nil:
			toks := strings.Split(string(unhex(r.Out)), ref.Sep(lang))
			idx := ref.Indices(op.Entropy())
			for i := 0; i+1 < len(idx) && i < len(toks); i++ {
				if toks[i] != e.Model.List[lang][idx[i]] {
					return fmt.Sprintf("under concurrency the word emitted for %s index %d is %s, the canonical word is %s", ref.Names[lang], idx[i], preview(toks[i]), preview(e.Model.List[lang][idx[i]]))
				}
			}
		case isChk(op.Fn):
			if st, _ := e.RefValidate(op.Str(), lang); st != ref.OK || acceptedBy(op, r) {
				return ""
			}
			if op.Fn != "val" && errClassOf(r.Err) == "other" {
				return fmt.Sprintf("under concurrency a valid %s sentence is rejected with %q: validation does not know a list word", ref.Names[lang], errText(r.Err))
			}
			ambiguous.Inc(ref.Names[lang])
		}
		return ""
	}
}

// C09: the size rule. A pool of generating calls with accepted and rejected sizes and counts.
func (e *Env) smokeSizeRule() func(*plan.Op, *plan.Res) string {
	return func(op *plan.Op, r *plan.Res) string {
		var ok bool
		var sentinel string
		switch {
		case op.Fn == "enc":
			ok, sentinel = validEntLen(len(op.Entropy())) && !op.ENil, "entlen"
		case op.Fn == "new" && op.Src == nil && !op.Shared:
			ok, sentinel = validCount64(op.N), "wordlen"
		default:
			return ""
		}
		out := string(unhex(r.Out))
		switch {
		case ok && (r.Err != nil || out == ""):
			return fmt.Sprintf("under concurrency %s with an accepted size (%d/%d) returned %s and err=%s", fnName(op.Fn), len(op.Entropy()), op.N, preview(out), errText(r.Err))
		case ok && op.Fn == "enc" && len(strings.Fields(out)) != len(op.Entropy())*3/4, ok && op.Fn == "new" && len(strings.Fields(out)) != int(op.N):
			return fmt.Sprintf("under concurrency %s with an accepted size (%d/%d) succeeded with a mnemonic of %d words", fnName(op.Fn), len(op.Entropy()), op.N, len(strings.Fields(out)))
		case !ok && (errClassOf(r.Err) != sentinel || out != ""):
			return fmt.Sprintf("under concurrency %s with a rejected size (%d/%d) returned %s and error class %s (%s)", fnName(op.Fn), len(op.Entropy()), op.N, preview(out), errClassOf(r.Err), errText(r.Err))
		}
		return ""
	}
}

func (e *Env) sizeRulePool(label string) []plan.Op {
	r := rng.New(e.Seed, label+"-sizepool")
	var pool []plan.Op
	for k, n := range []int{16, 20, 24, 28, 32, 0, 15, 17, 31, 33, 64, 12} {
		pool = append(pool, plan.Op{Fn: "enc", L: int64(k % ref.NLang), E: hx(r.Bytes(n))})
	}
	for k, c := range []int64{12, 15, 18, 21, 24, 0, -12, 11, 13, 25, 27, 36, 1 << 32, 12 + 1<<59} {
		pool = append(pool, plan.Op{Fn: "new", L: int64((k * 3) % ref.NLang), N: c})
	}
	return pool
}

// C03: an accepted string is reference-valid; IsMnemonicValid agrees with CheckMnemonic.
func (e *Env) smokeAcceptedValid() func(*plan.Op, *plan.Res) string {
	return func(op *plan.Op, r *plan.Res) string {
		if !isChk(op.Fn) || !supportedLang(op.L) {
			return ""
		}
		if op.Fn == "chkval" && (r.B == nil || *r.B != (r.Err == nil)) {
			return "under concurrency IsMnemonicValid disagrees with CheckMnemonic for " + preview(op.Str())
		}
		if st, _ := e.RefValidate(op.Str(), int(op.L)); st != ref.OK && acceptedBy(op, r) {
			return fmt.Sprintf("under concurrency a string that is not a valid %s mnemonic (%s) is accepted: %s", ref.Names[op.L], st, preview(op.Str()))
		}
		return ""
	}
}

// C15: the error class of single-defect sentences.
func (e *Env) smokeErrClass() func(*plan.Op, *plan.Res) string {
	return func(op *plan.Op, r *plan.Res) string {
		if op.Fn != "chk" || !supportedLang(op.L) {
			return ""
		}
		toks := strings.Split(op.Str(), " ")
		_, st, unk := e.Model.Dec(toks, int(op.L))
		want := map[ref.Status]string{ref.BadChecksum: "checksum", ref.UnknownWord: "other"}[st]
		if st == ref.BadCount {
			want = "wordlen"
			for _, t := range toks {
				if _, in := e.Model.Index[op.L][t]; !in {
					want = "" // several defects
				}
			}
		}
		if want == "" {
			return ""
		}
		if got := errClassOf(r.Err); got != want || (want == "other" && !namesToken(errText(r.Err), toks[unk])) {
			return fmt.Sprintf("under concurrency CheckMnemonic reports error class %s (%s) where the only defect calls for %s: %s", got, errText(r.Err), want, preview(op.Str()))
		}
		return ""
	}
}

// C04: the seed equals the reference seed.
func (e *Env) smokeSeedRef() func(*plan.Op, *plan.Res) string {
	return func(op *plan.Op, r *plan.Res) string {
		if op.Fn != "seed" {
			return ""
		}
		if want, ok := e.RefSeed(op.Str(), op.Pass()); ok && r.Out != hx(want) {
			return fmt.Sprintf("under concurrency MnemonicToSeed(%s, %s) = %s, expected %x", preview(op.Str()), preview(op.Pass()), r.Out, want)
		}
		return ""
	}
}

// C16: the name of the value.
func (e *Env) smokeStr() func(*plan.Op, *plan.Res) string {
	return func(op *plan.Op, r *plan.Res) string {
		if op.Fn != "str" {
			return ""
		}
		if got := string(unhex(r.Out)); got != nameOf(op.L) {
			return fmt.Sprintf("under concurrency Language(%d).String() = %q, expected %q", op.L, got, nameOf(op.L))
		}
		return ""
	}
}

// C10 / C11: observations of calls whose arguments have equal NFKD forms agree.
func (e *Env) smokeAgree(kind string) func(*plan.Op, *plan.Res) string {
	var mu sync.Mutex
	first := map[string]string{}
	firstArgs := map[string]string{}
	return func(op *plan.Op, r *plan.Res) string {
		var key, obs string
		switch {
		case kind == "chk" && isChk(op.Fn) && supportedLang(op.L):
			n, ok := e.NFKD1(op.Str())
			if !ok {
				return ""
			}
			key, obs = fmt.Sprint(op.L)+"|"+n, accWord(acceptedBy(op, r))
		case kind == "seed" && op.Fn == "seed":
			n, ok := e.NFKD([]string{op.Str(), op.Pass()})
			if !ok[0] || !ok[1] {
				return ""
			}
			key, obs = n[0]+"\x00"+n[1], r.Out
		default:
			return ""
		}
		args := preview(op.Str())
		mu.Lock()
		defer mu.Unlock()
		if prev, seen := first[key]; seen && prev != obs {
			return fmt.Sprintf("under concurrency two spellings with the same NFKD form are treated differently: %s -> %s, but %s -> %s", firstArgs[key], oneLine(prev, 40), args, oneLine(obs, 40))
		} else if !seen {
			first[key], firstArgs[key] = obs, args
		}
		return ""
	}
}
