package main

import (
	"bytes"
	"crypto/sha256"
	"encoding/json"
	"fmt"
	"math"
	"os"
	"os/exec"
	"path/filepath"
	"regexp"
	"strconv"
	"strings"
	"sync"
	"time"

	"aaverif/internal/plan"
	"aaverif/internal/ref"
	"aaverif/internal/rng"
)

func init() { register("C07", checkC07) }

func infoMap(r *plan.Res) map[string]string {
	m := map[string]string{}
	for _, s := range r.Info {
		if i := strings.IndexByte(s, '='); i > 0 {
			m[s[:i]] = s[i+1:]
		}
	}
	return m
}

func checkC07(e *Env) {
	drv := e.BuildDrv(false)
	procs := e.pick(20, 80)
	calls := e.pick(512, 2048)
	var mu sync.Mutex
	obs := newCounter()
	smp := newSamples(6)
	var entropies [][]byte // decoded entropy of every default sentence, all processes
	dist := newDistinct()
	totalCalls := 0

	planFor := func(p int, withIdent bool) []plan.Op {
		r := rng.New(e.Seed, "C07-"+itoa(p))
		var ops []plan.Op
		if withIdent {
			ops = append(ops, plan.Op{Fn: "ident"})
		}
		nc := calls
		if p == 0 && withIdent {
			// one long-lived process: a source that is replaced, re-seeded or pooled after some
			// thousands of calls shows only there
			nc = e.pick(12000, 150000)
		}
		for k := 0; k < nc; k++ {
			ops = append(ops, plan.Op{Fn: "new", N: int64(ref.WordCounts[(k+p)%5]), L: int64((k/5 + r.Intn(2)*5) % ref.NLang), Keep: withIdent})
			if withIdent && p%3 == 1 && k%2 == 0 {
				// calls of the other functions in between (bystanders: failing validations,
				// scripted sources that fail half way, rejected sizes, seeds)
				l := r.Intn(ref.NLang)
				ent := r.Bytes(ref.EntSizes[r.Intn(5)])
				w := e.Model.Words(ent, l)
				switch (k / 2) % 6 {
				case 0:
					ops = append(ops, plan.Op{Fn: "chk", L: int64(l), S: hxs(strings.Join(w[1:], " "))})
				case 1:
					ops = append(ops, plan.Op{Fn: "new", L: int64(l), N: int64(len(w)), Src: &plan.Src{Data: hx(ent), Steps: []plan.Step{{N: 3}, {N: 0, E: "custom"}}}})
				case 2:
					ops = append(ops, plan.Op{Fn: "chk", L: int64(l), S: hxs(strings.Join(w[:len(w)-1], " ") + " qzx")})
				case 3:
					ops = append(ops, plan.Op{Fn: "enc", L: int64(l), E: hx(ent)}, plan.Op{Fn: "new", L: int64(l), N: 13})
				case 4:
					ops = append(ops, plan.Op{Fn: "seed", S: hxs(strings.Join(w, "\u3000")), P: hxs("p")})
				case 5:
					ops = append(ops, plan.Op{Fn: "new", L: int64(l), N: 24, Src: &plan.Src{Data: hx(ent)}}, plan.Op{Fn: "chk", L: int64(l), S: hxs(strings.Join(w, " "))})
				}
			}
		}
		if withIdent {
			// the caller holds on to every mnemonic; they are read again after the last call
			ops = append(ops, plan.Op{Fn: "keepdump"})
		}
		for i := range ops {
			ops[i].I = i
		}
		return ops
	}

	judgeSentence := func(p int, op *plan.Op, r *plan.Res, wrapper bool) []byte {
		if strings.Contains(r.Panic, "verif: injected crypto/rand panic") {
			// the panic the monitor injected at the source travelled through the call: the
			// source's own doing, nothing was returned
			obs.Inc("injected_source_panics_that_propagated")
			return nil
		}
		if f := failure(r); f != "" {
			e.Violate(&Violation{What: "default-source NewMnemonic did not return normally: " + f, Ops: []plan.Op{*op}, Observed: r})
			return nil
		}
		out := string(unhex(r.Out))
		if wrapper {
			// a failure injected at crypto/rand.Reader before 4n/3 bytes were delivered must fail closed
			total, sawErr := 0, false
			for _, ev := range r.Reads {
				total += ev.N
				if ev.E != "" {
					sawErr = true
				}
			}
			if sawErr && total < int(op.N)+int(op.N)/3 {
				obs.Inc("injected_crypto_rand_failures_observed")
				if r.Err == nil || out != "" {
					e.Violate(&Violation{What: fmt.Sprintf("crypto/rand.Reader failed after delivering %d of %d bytes during NewMnemonic(%d, %s), yet the call returned err=%s and %s: the mnemonic does not come from the OS source", total, int(op.N)+int(op.N)/3, op.N, ref.Names[op.L], errText(r.Err), preview(out)),
						Ops: []plan.Op{*op}, Observed: r})
				}
				return nil
			}
		}
		if r.Err != nil {
			obs.Inc("default_source_calls_that_failed(unobservable)")
			return nil
		}
		// for the statistics the sentence is decoded without looking at its checksum
		ent, decodable := e.Model.DecodeLoose(strings.Fields(out), int(op.L))
		if wrapper {
			need := int(op.N) + int(op.N)/3
			var delivered []byte
			total := 0
			for _, ev := range r.Reads {
				delivered = append(delivered, unhex(ev.D)...)
				total += ev.N
			}
			obs.Add("bytes_observed_at_crypto_rand", total)
			if total != need {
				obs.Inc("calls_requesting_other_than_4n/3_bytes(recorded,not_asserted)")
			}
			switch {
			case len(delivered) < need:
				e.Violate(&Violation{What: fmt.Sprintf("NewMnemonic(%d, %s) returned a mnemonic although crypto/rand.Reader delivered only %d bytes during the call: the output is not a function of that source's bytes (entropy %x)", op.N, ref.Names[op.L], total, ent),
					Ops: []plan.Op{*op}, ChildEnv: []string{"VERIF_EARLYRAND=1"}, Observed: r})
				return nil
			case out == e.Model.Enc(delivered[:need], int(op.L)):
				// the sentence is the BIP39 encoding of exactly the bytes drawn during the call
			case r.Out2 != "" && string(unhex(r.Out2)) == out:
				// the sentence is what this tree's own NewMnemonicByEntropy makes of the delivered
				// bytes (computed in the same process right after the call): it is a function of
				// the source's bytes; that the encoder deviates from BIP39 is C01's business
				obs.Inc("sentences_equal_to_the_tree's_own_encoding_of_the_delivered_bytes(encoder_deviates:C01)")
				return nil
			default:
				e.Violate(&Violation{What: fmt.Sprintf("NewMnemonic(%d, %s) returned %s, which is neither the BIP39 sentence of the bytes crypto/rand.Reader delivered during the call (%x) nor what NewMnemonicByEntropy makes of them in the same process (%s): it decodes to %x, so other data was mixed in or substituted", op.N, ref.Names[op.L], preview(out), delivered[:need], preview(string(unhex(r.Out2))), ent),
					Ops: []plan.Op{*op}, ChildEnv: []string{"VERIF_EARLYRAND=1"}, Expected: map[string]string{"out_hex": hxs(e.Model.Enc(delivered[:need], int(op.L)))}, Observed: r})
				return nil
			}
			obs.Inc("calls_matched_against_interposed_crypto_rand_bytes")
		}
		if !decodable {
			obs.Inc("sentences_that_cannot_be_decoded(unobservable_without_interposer)")
			return nil
		}
		dist.Add(string(ent))
		smp.Add(map[string]any{"process": p, "n": op.N, "language": ref.Names[op.L], "sentence": out, "entropy": hx(ent), "crypto_rand_reads": r.Reads})
		return ent
	}

	// layers 1 and 2: fresh processes, half of them with the crypto/rand interposer
	parallel(procs, e.Workers, func(p int) {
		wrapper := p%2 == 0
		var env []string
		if wrapper {
			// interposer modes: plain recording, fragmented reads, a failing read
			mode := "1"
			m := (p / 2) % 10
			switch m {
			case 9:
				mode = "failenosys:" + itoa(1+(p*3)%calls) // getrandom not implemented (errors.ErrUnsupported)
			case 8:
				mode = "failenoent:" + itoa(1+(p*17)%calls) // no /dev/urandom (fs.ErrNotExist)
			case 7:
				mode = "panicstr:" + itoa(1+(p*13)%calls) // the Nth read panics with a string value
			case 6:
				mode = "gc" // fragmented reads with a completed garbage collection before each
			case 5:
				mode = "tempfail:" + itoa(1+(p*5)%calls)
			case 4:
				mode = "zeros:3"
			case 1:
				mode = "short"
			case 2:
				mode = "fail:" + itoa(1+(p*7)%calls)
			case 3:
				mode = "failpartial:" + itoa(1+(p*11)%calls)
			}
			env = []string{"VERIF_EARLYRAND=" + mode}
			obs.Inc("processes_with_interposer_mode_" + strings.SplitN(mode, ":", 2)[0])
			switch m {
			case 0, 1, 4, 6:
				// the modes that deliver everything also run in a hostile environment: variables a
				// process might take for a seed file, a fixed seed or a deterministic/debug switch.
				// What crypto/rand.Reader delivered must still determine every sentence.
				variant := map[int]int{0: 0, 1: 1, 4: 1, 6: 0}[m]
				env = append(env, hostileEnv(e, variant)...)
				obs.Inc("processes_with_hostile_environment_" + []string{"seed-files", "flags"}[variant])
			}
		}
		ops := planFor(p, true)
		res, died := e.RunProc(drv, ops, env, 0)
		if died != "" {
			culprit := ops[min(len(res), len(ops)-1)]
			e.Violate(&Violation{What: "fresh process using the default source died: " + oneLine(died, 300), Ops: []plan.Op{culprit}, ChildEnv: env})
			return
		}
		id := infoMap(&res[0])
		mu.Lock()
		totalCalls += len(res) - 1
		mu.Unlock()
		obs.Inc("processes")
		captured := false
		switch {
		case !wrapper:
			obs.Inc("identity_observed_against_untouched_crypto_rand.Reader")
			if id["prev_is_current_rand_reader"] != "true" || id["prev_is_original_rand_reader"] != "true" {
				e.Violate(&Violation{What: fmt.Sprintf("in a fresh process that swapped nothing the randomness source is not crypto/rand.Reader: it is a %s (%s)", id["prev_type"], strings.Join(res[0].Info, ", ")),
					Ops: ops[:1], Observed: res[0]})
				return
			}
		case id["prev_is_wrapper"] == "true":
			obs.Inc("identity_observed_against_interposed_crypto_rand.Reader")
			captured = true
		case id["prev_is_original_rand_reader"] == "true":
			// the source is crypto/rand.Reader but was bound before the interposer ran: layer 2 cannot observe
			obs.Inc("interposer_not_captured(layer2_inconclusive)")
		default:
			e.Violate(&Violation{What: fmt.Sprintf("in a fresh process that swapped nothing the randomness source is neither the interposed nor the original crypto/rand.Reader: it is a %s (%s)", id["prev_type"], strings.Join(res[0].Info, ", ")),
				Ops: ops[:1], ChildEnv: env, Observed: res[0]})
			return
		}
		if id["restore_returned_probe"] != "true" {
			fatalInconclusive("C07: the swap hook did not return the probe that was installed")
		}
		// mnemonics the caller held on to: at the end of the process each must still read as it
		// did when it was returned (what the source delivered, and nothing a later call wrote)
		if last := len(res) - 1; last > 0 && ops[last].Fn == "keepdump" {
			for _, inf := range res[last].Info {
				k := strings.IndexByte(inf, ':')
				var i int
				if k < 0 || strings.HasPrefix(inf, "buf") || strings.HasPrefix(inf, "err") {
					continue
				}
				if n, _ := fmt.Sscanf(inf[:k], "%d", &i); n != 1 || i <= 0 || i >= last || ops[i].Fn != "new" || ops[i].Src != nil || res[i].Err != nil {
					continue
				}
				obs.Inc("held_mnemonics_read_again_at_the_end_of_the_process")
				h := sha256.Sum256(unhex(res[i].Out))
				if hx(h[:]) != inf[k+1:] {
					e.Violate(&Violation{What: fmt.Sprintf("the mnemonic NewMnemonic(%d, %s) returned as call %d (%s) reads differently at the end of the process: a later call wrote into it, it is no longer the encoding of what the source delivered", ops[i].N, ref.Names[ops[i].L], i, preview(string(unhex(res[i].Out)))),
						Ops: ops, ChildEnv: env, Observed: res[i], Detail: "the child keeps every returned mnemonic and digests it again after the last call"})
					return
				}
			}
		}
		var ents [][]byte
		for i := 1; i < len(res); i++ {
			if ops[i].Fn != "new" || ops[i].Src != nil || !validCount64(ops[i].N) {
				continue // a bystander
			}
			if ent := judgeSentence(p, &ops[i], &res[i], captured); ent != nil {
				ents = append(ents, ent)
			}
		}
		if !strings.HasPrefix(strings.Join(env, ""), "VERIF_EARLYRAND=zeros") {
			// (processes in which the monitor itself injected all-zero reads do not enter the statistics)
			mu.Lock()
			entropies = append(entropies, ents...)
			mu.Unlock()
		}
	})

	// layer 3: kernel boundary, no hook used at all
	straceProcs := e.pick(1, 8)
	straceState := "not attempted"
	if _, err := exec.LookPath("strace"); err != nil {
		straceState = "inconclusive: strace not found"
	} else {
		matched, seen := 0, 0
		var smu sync.Mutex
		failed := ""
		parallel(straceProcs, e.Workers, func(p int) {
			ops := planFor(1000+p, false)
			if len(ops) > 256 {
				ops = ops[:256]
			}
			dir := filepath.Join(e.Scratch, "strace-"+itoa(p))
			os.MkdirAll(dir, 0755)
			var in bytes.Buffer
			enc := json.NewEncoder(&in)
			for i := range ops {
				enc.Encode(&ops[i])
			}
			trace := filepath.Join(dir, "trace")
			cmd := exec.Command("strace", "-f", "-e", "trace=getrandom", "-s", "64", "-xx", "-o", trace, drv, "-mode", "exec")
			cmd.Stdin = &in
			var out, errb bytes.Buffer
			cmd.Stdout, cmd.Stderr = &out, &errb
			if err := cmd.Run(); err != nil {
				smu.Lock()
				failed = "inconclusive: strace run failed: " + err.Error() + " " + oneLine(errb.String(), 200)
				smu.Unlock()
				return
			}
			raw, _ := os.ReadFile(trace)
			bufs, unparsed := parseGetrandom(string(raw))
			var results []plan.Res
			for _, line := range bytes.Split(out.Bytes(), []byte{'\n'}) {
				var r plan.Res
				if len(line) > 1 && json.Unmarshal(line, &r) == nil {
					results = append(results, r)
				}
			}
			if len(results) != len(ops) {
				smu.Lock()
				failed = "inconclusive: traced child returned too few results"
				smu.Unlock()
				return
			}
			smu.Lock()
			seen += len(bufs)
			smu.Unlock()
			if len(bufs) == 0 {
				return
			}
			next := 0
			for i := range results {
				ent := judgeSentence(1000+p, &ops[i], &results[i], false)
				if ent == nil {
					continue
				}
				found := false
				for j := next; j < len(bufs); j++ {
					if bytes.HasPrefix(bufs[j], ent) { // a consumer may request more than it uses
						found = true
						next = j + 1
						break
					}
				}
				if !found && unparsed > 0 {
					// some traced calls could not be parsed back: the layer cannot decide for this process
					smu.Lock()
					failed = fmt.Sprintf("inconclusive: %d traced getrandom calls could not be parsed", unparsed)
					smu.Unlock()
					return
				}
				if !found {
					e.Violate(&Violation{What: fmt.Sprintf("NewMnemonic(%d, %s) in an un-hooked process encodes %x, which no getrandom(2) call of the process returned (%d calls traced): the mnemonic is not drawn from the OS CSPRNG", ops[i].N, ref.Names[ops[i].L], ent, len(bufs)),
						Ops: []plan.Op{ops[i]}, Observed: results[i]})
					return
				}
				smu.Lock()
				matched++
				entropies = append(entropies, ent)
				smu.Unlock()
			}
			mu.Lock()
			totalCalls += len(results)
			mu.Unlock()
		})
		switch {
		case failed != "":
			straceState = failed
		case seen == 0:
			straceState = "inconclusive: no getrandom calls visible"
		default:
			straceState = fmt.Sprintf("%d sentences matched against %d traced getrandom buffers in %d processes", matched, seen, straceProcs)
			obs.Add("sentences_matched_against_getrandom_buffers", matched)
		}
	}

	// layer 4: concurrent default-source calls under the race detector, with the
	// interposer attributing every crypto/rand read to the goroutine that made it:
	// each sentence must encode exactly the bytes delivered to its own goroutine
	raceDrv := e.BuildDrv(true)
	concProcs := e.pick(9, 36)
	parallel(concProcs, max(1, e.Workers/4), func(ci int) {
		r := rng.New(e.Seed, "C07-conc-"+itoa(ci))
		c := &plan.Conc{GoMaxProcs: []int{2, 8, 4, 16, 3, 6, 1}[ci%7]}
		G := []int{8, 4, 16}[ci%3]
		for w := 0; w < G; w++ {
			var ops []plan.Op
			for k := 0; k < e.pick(60, 200); k++ {
				ops = append(ops, plan.Op{I: k, Fn: "new", N: int64(ref.WordCounts[r.Intn(5)]), L: int64(r.Intn(ref.NLang))})
			}
			c.Workers = append(c.Workers, ops)
		}
		if ci%2 == 1 {
			// bystanders: two goroutines that keep encoding from one recycled caller-owned buffer
			// per size (they rewrite it before every call): memory the caller owns must never
			// become the place where NewMnemonic collects its bytes
			for b := 0; b < 2; b++ {
				var ops []plan.Op
				for k := 0; k < e.pick(120, 400); k++ {
					ops = append(ops, plan.Op{I: k, Fn: "enc", L: int64(r.Intn(ref.NLang)), E: hx(r.Bytes(ref.EntSizes[r.Intn(5)])), Arena: true})
				}
				c.Workers = append(c.Workers, ops)
			}
		}
		cenv := []string{"VERIF_EARLYRAND=1"}
		if ci%3 == 2 {
			// the first crypto/rand read of the process fails: one failed call, then concurrency
			cenv = []string{"VERIF_EARLYRAND=fail:1"}
			c.Pre = []plan.Op{{I: 0, Fn: "new", N: 24, L: 2}}
		}
		cr := e.RunConc(raceDrv, c, "c07-"+itoa(ci), cenv, 10*time.Minute)
		viol := func(what string, detail any) {
			e.Violate(&Violation{What: fmt.Sprintf("concurrent default-source process %d (%d goroutines, GOMAXPROCS %d): %s", ci, G, c.GoMaxProcs, what), Conc: c, Race: true, ChildEnv: c07env(ci), Detail: detail})
		}
		for _, lg := range cr.RaceLogs {
			for _, b := range raceBlocks(lg) {
				if strings.Contains(b, "github.com/islishude/bip39") {
					viol("the race detector reports a data race on the path from crypto/rand to the mnemonic: "+oneLine(raceSignature(b), 300), b)
					return
				}
				fatalInconclusive("C07: race report without a frame of the package: %s", oneLine(b, 300))
			}
		}
		if cr.Trailer == nil {
			viol("the process produced no complete result set: "+oneLine(cr.Stderr+" "+cr.ExitErr, 300), cr.Stderr)
			return
		}
		gidOf := map[int64]int{}
		for _, inf := range cr.Trailer.Info {
			var w int
			var g int64
			if n, _ := fmt.Sscanf(inf, "worker%d=goid%d", &w, &g); n == 2 {
				gidOf[g] = w
			}
		}
		delivered := make([][]byte, G)
		for _, ev := range cr.Trailer.Reads {
			if w, ok := gidOf[ev.G]; ok {
				delivered[w] = append(delivered[w], unhex(ev.D)...)
			}
		}
		consumed := make([]int, G)
		for i := range cr.Results {
			res := &cr.Results[i]
			if res.G == -1 {
				if res.Err == nil || res.Out != "" {
					viol("crypto/rand.Reader failed on its first read, yet the sequential NewMnemonic before the goroutines started returned a mnemonic", res)
					return
				}
				obs.Inc("injected_crypto_rand_failures_observed")
				continue
			}
			op := &c.Workers[res.G][res.I]
			if op.Fn != "new" {
				continue // a bystander
			}
			need := int(op.N) + int(op.N)/3
			if res.Panic != "" || res.Err != nil {
				viol("a concurrent default-source NewMnemonic failed: "+oneLine(res.Panic+errText(res.Err), 200), res)
				return
			}
			w := res.G
			// the sentence must encode a slice of the bytes delivered to this goroutine,
			// later than the slices used by its earlier calls (a consumer may read more
			// than it uses, so the position is searched, not assumed)
			got := string(unhex(res.Out))
			found := -1
			for k := consumed[w]; k+need <= len(delivered[w]); k++ {
				if e.Model.Enc(delivered[w][k:k+need], int(op.L)) == got {
					found = k
					break
				}
			}
			if found < 0 && res.Out2 != "" && string(unhex(res.Out2)) == got {
				// what this tree's own encoder makes of the next delivered bytes (see above)
				obs.Inc("sentences_equal_to_the_tree's_own_encoding_of_the_delivered_bytes(encoder_deviates:C01)")
				consumed[w] += need
				continue
			}
			if found < 0 {
				viol(fmt.Sprintf("worker %d call %d: NewMnemonic(%d, %s) = %s does not encode any %d consecutive bytes that crypto/rand.Reader delivered to this goroutine after its previous call (%d bytes delivered to it in total)", w, res.I, op.N, ref.Names[op.L], preview(got), need, len(delivered[w])), res)
				return
			}
			consumed[w] = found + need
			obs.Inc("concurrent_calls_matched_per_goroutine")
		}
		mu.Lock()
		totalCalls += len(cr.Results)
		mu.Unlock()
		obs.Inc("concurrent_processes_under_race_detector")
	})

	// statistics over all default sentences of all processes
	dupes := 0
	seenEnt := map[string]bool{}
	ones, bits := 0, 0
	var hist [256]int
	nbytes := 0
	for _, en := range entropies {
		if seenEnt[string(en)] {
			dupes++
		}
		seenEnt[string(en)] = true
		for _, b := range en {
			hist[b]++
			nbytes++
			for k := 0; k < 8; k++ {
				ones += int(b>>uint(k)) & 1
			}
			bits += 8
		}
	}
	monobit, chi := 0.0, 0.0
	if bits > 0 {
		monobit = math.Abs(float64(ones)-float64(bits)/2) / math.Sqrt(float64(bits)/4)
		exp := float64(nbytes) / 256
		for _, c := range hist {
			chi += (float64(c) - exp) * (float64(c) - exp) / exp
		}
	}
	if e.Violations() == 0 {
		if len(entropies) < 1000 {
			fatalInconclusive("C07: only %d default-source sentences could be decoded and observed (%v)", len(entropies), obs.Map())
		}
		if dupes > 0 {
			e.Violate(&Violation{What: fmt.Sprintf("%d default-source mnemonics repeat an entropy already produced in this run (within or across fresh processes): the source is not the OS CSPRNG", dupes), Detail: "duplicate entropies"})
		}
		if monobit >= 7 || chi >= 500 {
			e.Violate(&Violation{What: fmt.Sprintf("default-source entropy is statistically not uniform: monobit deviation %.2f sigma (limit 7), byte chi-square %.1f (255 dof, limit 500) over %d bytes", monobit, chi, nbytes), Detail: "statistics"})
		}
	}
	e.WriteEvidence("exploration", map[string]any{
		"evaluations":            totalCalls,
		"distinct_nontrivial":    dist.Len(),
		"rule":                   "cases are default-source NewMnemonic calls (all five word counts, all ten languages) made in fresh processes that swapped nothing; half of the processes run with the crypto/rand interposer (aaverif/internal/earlyrand, initialised before bip39) where every sentence must decode to exactly the bytes crypto/rand.Reader delivered during that call (the interposer also fragments reads in some processes and makes one read fail in others: that call must then return (\"\", error)), half of those that deliver everything run in a hostile environment (seed-file variables such as RANDFILE and HOME/.rnd, or fixed-seed and deterministic/debug switches), one of them is long-lived (12 000 calls, thorough 150 000); the other half with the untouched crypto/rand.Reader where the pre-swap source must be identical to it; further processes run 4-16 goroutines under the race detector with the interposer attributing reads to goroutines (each sentence must encode the bytes delivered to its own goroutine); further processes run without any hook under strace and every sentence must decode to the buffer of one getrandom(2) call; non-trivial = every call (each is matched against observed source bytes or decoded for the duplicate/uniformity statistics); distinct = distinct entropies observed",
		"samples":                smp.List(),
		"observations":           obs.Map(),
		"kernel_boundary_layer":  straceState,
		"duplicate_entropies":    dupes,
		"duplicate_search_size":  len(entropies),
		"monobit_sigma":          math.Round(monobit*100) / 100,
		"byte_chi_square_255dof": math.Round(chi*10) / 10,
		"bytes_in_statistics":    nbytes,
		"processes":              procs + straceProcs,
	}, []string{
		"Go initialises aaverif/internal/earlyrand before github.com/islishude/bip39 (import-path order among independent packages); when that does not hold the run says so and layer 1 still decides",
		"go1.23 crypto/rand reads through the getrandom(2) system call (no vDSO), so strace sees every read; if it does not, the layer is reported inconclusive",
		"statistical thresholds (7 sigma, chi-square 500 at 255 dof) have false-alarm probability below 1e-11",
	})
}

// a completed call is either on one line or, when another thread's syscall
// was logged in between, split into "<unfinished ...>" and "<... getrandom resumed>"
var getrandomRe = regexp.MustCompile(`(?:getrandom\(|<\.\.\. getrandom resumed>)"((?:\\x[0-9a-f]{2})*)"(\.\.\.)?, (\d+), [^)]*\)\s+= (\d+)`)
var getrandomStartRe = regexp.MustCompile(`getrandom\(`)

// parseGetrandom extracts the buffers returned by getrandom(2) from strace -xx
// output. unparsed is the number of calls that were started but whose buffer
// could not be recovered (truncated, failed or garbled lines): while it is
// non-zero an unmatched sentence proves nothing.
func parseGetrandom(trace string) (out [][]byte, unparsed int) {
	for _, m := range getrandomRe.FindAllStringSubmatch(trace, -1) {
		if m[2] != "" {
			continue // truncated by -s
		}
		n, _ := strconv.Atoi(m[4])
		hexs := strings.ReplaceAll(m[1], `\x`, "")
		b := unhex(hexs)
		if len(b) == n {
			out = append(out, b)
		}
	}
	unparsed = len(getrandomStartRe.FindAllString(trace, -1)) - len(out)
	if unparsed < 0 {
		unparsed = 0
	}
	return out, unparsed
}

// hostileEnv returns environment variables that name a readable, non-empty seed file (variant 0;
// RANDFILE and $HOME/.rnd are OpenSSL's conventions) or fixed seeds and deterministic/debug
// switches (variant 1). The library reads none of them; one that does lets something other than
// the OS source decide the mnemonic.
func hostileEnv(e *Env, variant int) []string {
	dir := e.Verif + "/golden/hostile-env"
	if variant == 0 {
		f := dir + "/seedfile"
		return []string{"HOME=" + dir + "/home", "RANDFILE=" + f, "SEEDFILE=" + f, "SEED_FILE=" + f, "ENTROPY_FILE=" + f, "BIP39_RANDFILE=" + f,
			"BIP39_SEED_FILE=" + f, "BIP39_ENTROPY_FILE=" + f, "BIP39_RAND=" + f, "BIP39_SOURCE=" + f, "EGD_PATH=" + f}
	}
	fixed := strings.Repeat("00", 32)
	return []string{"SOURCE_DATE_EPOCH=1", "SEED=1", "RANDOM_SEED=1", "RAND_SEED=1", "TEST_SEED=1", "GO_TEST_SEED=1", "BIP39_SEED=1", "BIP39_ENTROPY=" + fixed,
		"ENTROPY=" + fixed, "BIP39_DETERMINISTIC=1", "DETERMINISTIC=1", "BIP39_DEBUG=1", "BIP39_TEST=1", "BIP39_INSECURE=1", "BIP39_FAST=1", "DEBUG=1", "TESTING=1", "CI=true", "GO_ENV=test", "ENV=test"}
}

func c07env(ci int) []string {
	if ci%3 == 2 {
		return []string{"VERIF_EARLYRAND=fail:1"}
	}
	return []string{"VERIF_EARLYRAND=1"}
}
