package main

import (
	"encoding/json"
	"fmt"
	"os"
	"reflect"
	"time"

	"aaverif/internal/plan"
	"aaverif/internal/ref"
	"aaverif/internal/rng"
)

// replay re-executes the calls recorded in a replay file against a fresh
// build of the monitored tree and prints what the child observes now, next to
// what was expected and observed when the monitor fired. Exit status: 1 when
// the recorded observation is reproduced (or the recorded expectation is
// still not met), 0 when the calls now produce the recorded expectation.
func replay(path string) int {
	raw, err := os.ReadFile(path)
	if err != nil {
		fmt.Fprintln(os.Stderr, err)
		return exitInconclusive
	}
	var v Violation
	if err := json.Unmarshal(raw, &v); err != nil {
		fmt.Fprintln(os.Stderr, err)
		return exitInconclusive
	}
	e := newEnv(v.Property, v.Tier)
	defer cleanup()
	fmt.Printf("replaying %s (%s, seed %d): %s\n", v.Property, v.Tier, v.Seed, oneLine(v.What, 600))
	drv := e.BuildDrv(v.Race)
	var now any
	switch {
	case v.Conc != nil:
		cr := e.RunConc(drv, v.Conc, "replay", v.ChildEnv, 10*time.Minute)
		now = map[string]any{"results": cr.Results, "race_logs": cr.RaceLogs, "stderr": cr.Stderr, "exit": cr.ExitErr}
	case len(v.Ops) > 0:
		res, died := e.RunProc(drv, v.Ops, v.ChildEnv, 30*time.Minute)
		now = map[string]any{"results": res, "died": died}
		if len(res) == 1 && died == "" {
			now = stripTimes(&res[0])
		}
	default:
		fmt.Println("the replay file holds no executable calls; see its 'detail' field")
		return 1
	}
	b, _ := json.MarshalIndent(map[string]any{"expected": v.Expected, "observed_then": v.Observed, "observed_now": now}, "", " ")
	fmt.Println(string(b))
	// best-effort verdict: same observable fields as recorded => reproduced
	if r, ok := now.(*plan.Res); ok {
		if m, ok := v.Expected.(map[string]any); ok {
			if want, ok := m["out_hex"].(string); ok {
				if r.Out == want && r.Panic == "" {
					fmt.Println("REPLAY: the call now returns the expected value")
					return 0
				}
				fmt.Println("REPLAY: reproduced (the call still does not return the expected value)")
				return 1
			}
		}
		var then plan.Res
		ob, _ := json.Marshal(v.Observed)
		if json.Unmarshal(ob, &then) == nil {
			if reflect.DeepEqual(stripTimes(&then), r) {
				fmt.Println("REPLAY: reproduced (identical observation)")
				return 1
			}
		}
	}
	fmt.Println("REPLAY: executed; compare observed_now with expected above")
	return 1
}

func stripTimes(r *plan.Res) *plan.Res {
	c := *r
	c.T0, c.T1, c.CPU = 0, 0, 0
	return &c
}

func selftest(e *Env) {
	u := e.Uni()
	fmt.Printf("reference model self-test passed; CPython unidata %s, %d assigned code points\n", u.Version, u.Assigned)
	// published Japanese vector (needs the NFKD oracle)
	m := "あいこくしん　あいこくしん　あいこくしん　あいこくしん　あいこくしん　あいこくしん　あいこくしん　あいこくしん　あいこくしん　あいこくしん　あいこくしん　あおぞら"
	p := "㍍ガバヴァぱばぐゞちぢ十人十色"
	if err := seedSelfTest(e, m, p, "a262d6fb6122ecf45be09c50492b31f92e9beb7d9a845987a02cefda57a15f9c467a17872029a9e92299b5cbdf306e3a0ee620245cbd508959b6cb7ca637bd55"); err != nil {
		fatalInconclusive("%v", err)
	}
	fmt.Println("R-SEED with CPython NFKD reproduces the published Japanese vector")
	// the harness's PBKDF2 loop against hashlib on random keys and salts of many lengths
	r := rng.New(e.Seed, "selftest-pbkdf2")
	var reqs []string
	var mine []string
	for k := 0; k < 64; k++ {
		pw, salt := r.Bytes(r.Intn(300)), r.Bytes(r.Intn(300))
		if k < 8 {
			pw = r.Bytes([]int{0, 1, 127, 128, 129, 255, 256, 1000}[k])
		}
		reqs = append(reqs, "K "+hexOrDash(string(pw))+" "+hexOrDash("mnemonic"+string(salt)))
		mine = append(mine, hx(ref.Seed(pw, salt)))
	}
	for i, rep := range e.Py().batch(reqs) {
		if rep != mine[i] {
			fatalInconclusive("reference PBKDF2 disagrees with hashlib on case %d", i)
		}
	}
	fmt.Println("reference PBKDF2 agrees with CPython hashlib on 64 random key/salt pairs")
	e.BuildDrv(false)
	e.BuildDrv(true)
	fmt.Println("drv builds (plain and -race) from", e.Repo)
}
