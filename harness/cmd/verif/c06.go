package main

import (
	"fmt"
	"math"
	"strings"
	"sync"
	"time"

	"aaverif/internal/plan"
	"aaverif/internal/ref"
	"aaverif/internal/rng"
)

func init() { register("C06", checkC06) }

type c06exp struct {
	n, need   int
	lang      int
	data      []byte
	steps     []plan.Step
	class     string // must-fail | must-succeed | either (error alongside the read that completes the delivery)
	k         int    // failure point (bytes delivered before the failure), -1 for successes
	kind      string
	alongside bool
	frag      string
}

// classify derives, from the script alone, what the property demands.
func classify(data []byte, steps []plan.Step, need int) string {
	before := 0
	for _, st := range steps {
		n := st.N
		if before+n > len(data) {
			n = len(data) - before
		}
		if st.E != "" {
			switch {
			case before >= need:
				return "must-succeed" // error only after everything needed was delivered
			case before+n >= need && st.E == "eof":
				// the source ENDS exactly with the last byte needed: it did not end before 4n/3
				// bytes were delivered, so the first clause applies (io.ReadFull succeeds here)
				return "must-succeed"
			case before+n >= need:
				return "either" // the erroring read completes the delivery
			default:
				return "must-fail"
			}
		}
		before += n
		if before >= len(data) && before < need {
			return "must-fail"
		}
	}
	if len(data) >= need {
		return "must-succeed"
	}
	return "must-fail"
}

// fragmentations of k bytes into read sizes
func fragmentations(r *rng.R, k int, thorough bool) map[string][]int {
	out := map[string][]int{}
	if k == 0 {
		out["none"] = nil
		return out
	}
	out["one-read"] = []int{k}
	ones := make([]int, k)
	for i := range ones {
		ones[i] = 1
	}
	out["one-byte-reads"] = ones
	if k >= 2 {
		out["halves"] = []int{k / 2, k - k/2}
		out["all-but-one+1"] = []int{k - 1, 1}
		out["1+all-but-one"] = []int{1, k - 1}
		z := []int{0, k / 2, 0, 0, k - k/2, 0}
		out["zero-length-reads-interleaved"] = z
	}
	if k >= 2 {
		// runs of (0, nil) reads of several lengths at the start, in the middle, before the last byte
		for _, z := range []int{1, 2, 3, 8, 32} {
			var f []int
			for i := 0; i < z; i++ {
				f = append(f, 0)
			}
			f = append(f, k-1)
			for i := 0; i < z; i++ {
				f = append(f, 0)
			}
			f = append(f, 1)
			if z == 3 || z == 32 || thorough {
				out["zero-length-runs-"+itoa(z)] = f
			}
		}
	}
	nr := 1
	if thorough {
		nr = 4
	}
	for j := 0; j < nr; j++ {
		var comp []int
		left := k
		for left > 0 {
			c := 1 + r.Intn(left)
			if r.Intn(5) == 0 {
				comp = append(comp, 0)
			}
			comp = append(comp, c)
			left -= c
		}
		out["random-composition-"+itoa(j)] = comp
	}
	return out
}

// c06Budget is the CPU a call may consume before it counts as not returning: 10 s, plus 10 s for
// every garbage collection the scripted source forces during the call (the collector's idle
// workers spin while other processes hold the cores; 1.8 s per forced collection was observed on
// a machine running four sweeps at once).
func c06Budget(it *Item) time.Duration {
	b := 10 * time.Second
	if it.Op.Src != nil {
		for _, st := range it.Op.Src.Steps {
			if st.GC {
				b += 10 * time.Second
			}
		}
	}
	return b
}

func stepsOf(sizes []int) []plan.Step {
	st := make([]plan.Step, len(sizes))
	for i, n := range sizes {
		st[i] = plan.Step{N: n}
	}
	return st
}

// failureKinds are the errors a scripted source can report. After reporting one it
// keeps reporting it: a consumer that retries cannot obtain further bytes, so any
// mnemonic it returns is built from a partially filled buffer.
var failureKinds = []string{"eof", "ueof", "custom", "eintr", "eagain", "patherr", "temporary", "timeout", "deadline", "noprogress", "shortbuffer", "closedpipe", "wrappedeof", "enoent", "enosys"}

func checkC06(e *Env) {
	drv := e.BuildDrv(false)
	matrix := newDistinct()
	matrixKinds := newCounter()
	frags := newCounter()
	classes := newCounter()
	outcomes := newCounter()
	srcEvents := newCounter()
	dist := newDistinct()
	smp := newSamples(8)

	// the CPU budget turns a consumer that retries a failed source forever into a verdict
	stats := e.RunStream(StreamOpts{Drv: drv, CPUBudget: c06Budget, Window: 64}, func(emit func(*Item)) {
		r := rng.New(e.Seed, "C06")
		langRot := 0
		langsFor := func() []int {
			if e.Thorough() {
				return []int{0, 1, 2, 3, 4, 5, 6, 7, 8, 9}
			}
			langRot++
			return []int{langRot % ref.NLang, (langRot + 3) % ref.NLang, (langRot + 7) % ref.NLang}
		}
		send := func(x c06exp) {
			if x.class == "" {
				x.class = classify(x.data, x.steps, x.need)
			}
			emit(&Item{Op: plan.Op{Fn: "new", L: int64(x.lang), N: int64(x.n), Src: &plan.Src{Data: hx(x.data), Steps: x.steps}}, Exp: x})
		}
		for _, n := range ref.WordCounts {
			need := n + n/3
			// a source that stalls: k bytes, then a long run of (0, nil) reads, then the rest. A
			// consumer may go on polling (io.ReadFull does) or give up with an error; what it must
			// not do is give up and return a mnemonic of the partially filled buffer.
			for _, k := range []int{0, 1, need / 2, need - 1} {
				for _, z := range []int{64, 99, 100, 101, 128, 256, 1000} {
					for _, lang := range langsFor()[:map[bool]int{true: 3, false: 1}[e.Thorough()]] {
						var st []plan.Step
						if k > 0 {
							st = append(st, plan.Step{N: k})
						}
						for i := 0; i < z; i++ {
							st = append(st, plan.Step{N: 0})
						}
						st = append(st, plan.Step{N: need - k})
						send(c06exp{n: n, need: need, lang: lang, data: r.Bytes(need + 8), steps: st, class: "either", k: k, kind: "stall of " + itoa(z) + " empty reads, then the remaining bytes", frag: "stall-" + itoa(z)})
					}
				}
			}
			// failures at every point k
			for k := 0; k < need; k++ {
				for ki, kind := range failureKinds {
					for fname, sizes := range fragmentations(r, k, e.Thorough()) {
						if ki >= 3 && !e.Thorough() && fname != "one-read" && fname != "none" && fname != "halves" {
							continue // the less common kinds get two fragmentations in the quick tier
						}
						for _, lang := range langsFor() {
							data := r.Bytes(need + 8)
							// error returned alone after k bytes
							st := append(stepsOf(sizes), plan.Step{N: 0, E: kind})
							send(c06exp{n: n, need: need, lang: lang, data: data, steps: st, k: k, kind: kind, frag: fname})
							// error returned alongside the last bytes
							if k > 0 {
								st2 := stepsOf(sizes)
								last := len(st2) - 1
								for last > 0 && st2[last].N == 0 {
									last--
								}
								st2 = st2[:last+1]
								st2[last].E = kind
								send(c06exp{n: n, need: need, lang: lang, data: data, steps: st2, k: k, kind: kind, alongside: true, frag: fname})
							}
						}
					}
				}
				// the stream simply ends after k bytes (data exhausted)
				for _, lang := range langsFor() {
					send(c06exp{n: n, need: need, lang: lang, data: r.Bytes(k), k: k, kind: "end-of-data", frag: "one-read"})
				}
			}
			// successes under the same fragmentations, with more data available than needed
			reps := e.pick(20, 200)
			for rep := 0; rep < reps; rep++ {
				for fname, sizes := range fragmentations(r, need, true) {
					for _, lang := range langsFor() {
						data := r.Bytes(need + r.Intn(16))
						switch rep % 10 {
						case 1, 6:
							for i := 0; i <= rep%4; i++ {
								data[i] = 0
							}
						case 2: // "weak" entropy must be encoded like any other
							for i := range data {
								data[i] = 0
							}
						case 3:
							for i := range data {
								data[i] = 0xff
							}
						case 4:
							for i := range data {
								data[i] = data[0]
							}
						case 5:
							for i := range data {
								data[i] = byte(i)
							}
						}
						send(c06exp{n: n, need: need, lang: lang, data: data, steps: stepsOf(sizes), k: -1, frag: fname})
						// exactly as much data as needed: EOF would follow
						send(c06exp{n: n, need: need, lang: lang, data: data[:need], steps: stepsOf(sizes), k: -1, frag: fname + "/exact-data"})
						if rep < 2 && len(sizes) > 1 {
							// a slow source: a garbage collection with finalizers completes before
							// every fragment after the first
							// (at most nine of them: under heavy machine load a forced collection costs
							// seconds of CPU in spinning workers, and the CPU budget below grows with
							// their number)
							st := stepsOf(sizes)
							every := (len(st) + 7) / 8
							for i := 1; i < len(st); i += every {
								st[i].GC = true
							}
							send(c06exp{n: n, need: need, lang: lang, data: data, steps: st, k: -1, frag: fname + "/collection-between-fragments"})
						}
						if rep < 4 {
							// error alongside the read that completes the delivery (lenient corner)
							for _, kind := range failureKinds {
								st := stepsOf(sizes)
								st[len(st)-1].E = kind
								send(c06exp{n: n, need: need, lang: lang, data: data, steps: st, k: -1, kind: kind, alongside: true, frag: fname})
								// error on the read after everything was delivered
								st3 := append(stepsOf(sizes), plan.Step{N: 0, E: kind})
								send(c06exp{n: n, need: need, lang: lang, data: data, steps: st3, k: -1, kind: kind, frag: fname + "/error-after"})
							}
						}
					}
				}
			}
		}
	}, func(it *Item, r *plan.Res) {
		x := it.Exp.(c06exp)
		classes.Inc(x.class)
		frags.Inc(x.frag)
		if f := failure(r); f != "" {
			e.Violate(&Violation{What: "NewMnemonic did not return normally under a scripted source: " + f, Ops: []plan.Op{it.Op}, Observed: r})
			return
		}
		out := string(unhex(r.Out))
		delivered := 0
		for _, ev := range r.Reads {
			delivered += ev.N
			srcEvents.Inc("reads")
			if ev.N < ev.Req {
				srcEvents.Inc("short_reads")
			}
			if ev.E != "" {
				srcEvents.Inc("error_returns")
			}
		}
		srcEvents.Add("bytes_delivered", delivered)
		if delivered > x.need {
			srcEvents.Inc("calls_that_over_read")
		}
		succeeded := r.Err == nil
		okSentence := func() bool {
			want := e.Model.Enc(x.data[:x.need], x.lang)
			if out != want {
				e.Violate(&Violation{What: fmt.Sprintf("NewMnemonic(%d, %s) is not the encoding of the first %d bytes the source delivered (fragmentation %s): %s", x.n, ref.Names[x.lang], x.need, x.frag, describeMismatch(out, want, x.lang)),
					Ops: []plan.Op{it.Op}, Expected: map[string]string{"out_hex": hxs(want), "out": want, "err": "nil"}, Observed: r})
				return false
			}
			if got := len(strings.Split(out, ref.Sep(x.lang))); got != x.n {
				e.Violate(&Violation{What: fmt.Sprintf("NewMnemonic(%d) returned %d words", x.n, got), Ops: []plan.Op{it.Op}, Observed: r})
				return false
			}
			return true
		}
		failClosed := func() bool {
			if r.Err == nil || out != "" {
				what := fmt.Sprintf("the source failed (%s%s) after delivering %d of %d bytes but NewMnemonic(%d, %s) returned err=%s and %s",
					x.kind, map[bool]string{true: ", error alongside the last bytes", false: ""}[x.alongside], x.k, x.need, x.n, ref.Names[x.lang], errText(r.Err), preview(out))
				if out != "" {
					padded := make([]byte, x.need)
					copy(padded, x.data[:min(delivered, len(x.data), x.need)])
					if out == e.Model.Enc(padded, x.lang) {
						what += " — this is the mnemonic of the partially filled, zero-padded buffer"
					}
				}
				e.Violate(&Violation{What: what, Ops: []plan.Op{it.Op}, Expected: map[string]string{"out_hex": "", "err": "non-nil"}, Observed: r})
				return false
			}
			return true
		}
		ok := false
		switch x.class {
		case "must-succeed":
			if !succeeded {
				e.Violate(&Violation{What: fmt.Sprintf("the source delivered all %d bytes (fragmentation %s) but NewMnemonic(%d, %s) failed with %q", x.need, x.frag, x.n, ref.Names[x.lang], errText(r.Err)),
					Ops: []plan.Op{it.Op}, Expected: map[string]string{"out_hex": hxs(e.Model.Enc(x.data[:x.need], x.lang)), "err": "nil"}, Observed: r})
				return
			}
			ok = okSentence()
			outcomes.Inc("success")
		case "must-fail":
			ok = failClosed()
			outcomes.Inc("failed-closed")
			key := fmt.Sprintf("%d/%d/%s/%v", x.n, x.k, x.kind, x.alongside)
			matrix.Add(key)
			matrixKinds.Inc(fmt.Sprintf("%s/alongside=%v", x.kind, x.alongside))
		case "either":
			if succeeded {
				ok = okSentence()
				outcomes.Inc("corner-success")
			} else {
				ok = failClosed()
				outcomes.Inc("corner-failed-closed")
			}
		}
		if ok {
			dist.Add(hx(x.data), fmt.Sprint(x.steps), itoa(x.n), itoa(x.lang))
			if x.class != "must-succeed" || x.frag != "one-read" {
				smp.Add(map[string]any{"n": x.n, "language": ref.Names[x.lang], "class": x.class, "steps": x.steps, "data_len": len(x.data), "source_reads": r.Reads, "out": preview(out), "err": errText(r.Err)})
			}
		}
	})

	// the FIRST call of a fresh process (and the second and third): lazily initialised state,
	// probes of the source and one-time set-up show only there
	firstCalls := 0
	var fmu sync.Mutex
	parallel(e.pick(120, 1200), e.Workers, func(pi int) {
		r := rng.New(e.Seed, "C06-first-"+itoa(pi))
		var ops []plan.Op
		var exps []c06exp
		for k := 0; k < 3; k++ {
			n := ref.WordCounts[(pi+k)%5]
			need := n + n/3
			x := c06exp{n: n, need: need, lang: (pi + 3*k) % ref.NLang, k: -1, frag: "first-calls"}
			x.data = r.Bytes(need + []int{0, 0, 5, 16}[(pi/5+k)%4])
			switch (pi/20 + k) % 4 {
			case 1:
				for d := 0; d < need; d++ {
					x.steps = append(x.steps, plan.Step{N: 1})
				}
			case 2:
				x.steps = []plan.Step{{N: need / 2}, {N: 0}, {N: need - need/2}}
			case 3:
				x.k, x.kind = need/2, "custom"
				x.steps = []plan.Step{{N: need / 2, E: "custom"}}
			}
			x.class = classify(x.data, x.steps, need)
			ops = append(ops, plan.Op{I: k, Fn: "new", L: int64(x.lang), N: int64(n), Src: &plan.Src{Data: hx(x.data), Steps: x.steps}})
			exps = append(exps, x)
		}
		res, died := e.RunProc(drv, ops, nil, 0)
		if died != "" {
			e.Violate(&Violation{What: "a fresh process died in its first NewMnemonic calls: " + oneLine(died, 300), Ops: ops[:min(len(res)+1, len(ops))]})
			return
		}
		for i := range res {
			x, r := exps[i], &res[i]
			out := string(unhex(r.Out))
			bad := ""
			switch {
			case r.Panic != "":
				bad = "panicked: " + oneLine(r.Panic, 200)
			case x.class == "must-succeed" && (r.Err != nil || out != e.Model.Enc(x.data[:x.need], x.lang)):
				bad = fmt.Sprintf("returned (%s, %s), expected the encoding of the first %d bytes the source delivered: %s", preview(out), errText(r.Err), x.need, preview(e.Model.Enc(x.data[:x.need], x.lang)))
			case x.class == "must-fail" && (r.Err == nil || out != ""):
				bad = fmt.Sprintf("returned (%s, %s) although the source failed after %d of %d bytes", preview(out), errText(r.Err), x.k, x.need)
			}
			if bad != "" {
				e.Violate(&Violation{What: fmt.Sprintf("call number %d of a fresh process, NewMnemonic(%d, %s): %s", i+1, x.n, ref.Names[x.lang], bad), Ops: ops[:i+1], Observed: r, Detail: "the calls are the first ones of the process"})
				return
			}
		}
		fmu.Lock()
		firstCalls += len(res)
		fmu.Unlock()
	})

	// histories in one process: failing and succeeding NewMnemonic calls among calls of the
	// other functions; every NewMnemonic on a scripted source is judged as above
	histCalls := e.runHistories(drv, "C06", e.pick(24, 300), 4, func(ops []plan.Op, res []plan.Res) {
		for i := range res {
			op := &ops[i]
			if op.Fn != "new" || op.Src == nil || op.L < 0 || op.L >= ref.NLang {
				continue
			}
			if res[i].Panic != "" {
				e.Violate(&Violation{What: "NewMnemonic panicked in a sequence of calls: " + oneLine(res[i].Panic, 300), Ops: ops[:i+1], Observed: res[i], Detail: historyNote})
				return
			}
			if why := e.judgeAgainstRef(op, &res[i], e.refEval(op)); why != "" {
				e.Violate(&Violation{What: fmt.Sprintf("after earlier calls in the same process NewMnemonic(%d, %s) on a scripted source: %s", op.N, ref.Names[op.L], why), Ops: ops[:i+1], Observed: res[i], Detail: historyNote})
				return
			}
		}
	})
	// one source that stays installed over many calls, fails during some and works again
	transientCalls := e.transientHistories(drv, "C06", e.pick(60, 1500), func(c *transientCall) {
		op := &c.ops[c.i]
		if c.failedNow {
			// the source failed before 4n/3 bytes were delivered in this call
			if c.res.Panic == "" && (c.res.Err == nil || c.res.Out != "") && c.matchedAt < 0 {
				e.Violate(&Violation{What: fmt.Sprintf("a source that stays installed failed during NewMnemonic(%d, %s) after delivering %d bytes in this call, yet the call returned err=%s and %s, which encodes no %d bytes the source had delivered and left unused", op.N, ref.Names[op.L], c.deliveredOK, errText(c.res.Err), preview(string(unhex(c.res.Out))), c.need),
					Ops: c.ops[:c.i+1], Observed: c.res, Detail: historyNote})
			}
			return
		}
		if why := c.workingSourceVerdict(); why != "" {
			e.Violate(&Violation{What: "a source that stays installed, fails during some calls and works again: " + why, Ops: c.ops[:c.i+1], Observed: c.res, Detail: historyNote})
		}
	})
	// the concurrent flavour: goroutines call NewMnemonic at the same time on ONE mutex-protected
	// scripted source that delivers in fragments and fails transiently; every read is logged
	// with the goroutine that made it, so each call is judged by its own goroutine's reads
	concCalls := e.c06Concurrent(drv, e.pick(8, 60))
	wantMatrix := 0
	for _, n := range ref.WordCounts {
		need := n + n/3
		wantMatrix += need*len(failureKinds) + (need-1)*len(failureKinds) + need // alone, alongside (k>=1), end-of-data
	}
	if e.Violations() == 0 && matrix.Len() != wantMatrix {
		fatalInconclusive("C06: failure matrix has %d of %d cells", matrix.Len(), wantMatrix)
	}
	e.WriteEvidence("fault_enumeration", map[string]any{
		"evaluations": stats.Ops,
		"max_fraction_of_cpu_budget_used_by_a_call": math.Round(stats.MaxCPUBudgetFrac*1000) / 1000,
		"distinct_nontrivial":                       dist.Len(),
		"calls_inside_histories":                    histCalls,
		"concurrent_calls_on_one_shared_source_judged_by_their_own_goroutine's_reads": concCalls,
		"calls_on_a_source_that_fails_transiently_and_stays_installed":                transientCalls,
		"rule":                          "a case is a scripted randomness source (bytes, per-read delivery sizes, failure point, failure kind, error alone or alongside the last bytes) x word count x language; enumerated: every failure point k in 0..4n/3-1 for n in {12,15,18,21,24} x 15 failure kinds (io.EOF, io.ErrUnexpectedEOF, a custom error, EINTR, EAGAIN, *os.PathError, a missing /dev/urandom (fs.ErrNotExist), ENOSYS (errors.ErrUnsupported), Temporary()/Timeout() errors, os.ErrDeadlineExceeded, io.ErrNoProgress, io.ErrShortBuffer, io.ErrClosedPipe, wrapped EOF; sticky: the source keeps failing) x {alone, alongside} plus plain end of data, each under several fragmentations (one read, 1-byte reads, halves, (k-1)+1, 1+(k-1), zero-length reads interleaved, seeded random compositions); stalls (k bytes, then 64..1000 consecutive (0, nil) reads, then the remaining bytes: polling on or giving up with an error are both admitted, a mnemonic of the partly filled buffer is not); successes under the same fragmentations incl. zero-leading data, and with a garbage collection (finalizers included) completing between the fragments; histories over one source that stays installed, fails transiently and works again; goroutines calling at the same time on one shared source, each call judged by the reads its own goroutine made; all cases non-trivial (the result is compared with the reference encoding of the delivered prefix, or must be (\"\", non-nil error)); distinct by (data, script, n, language)",
		"samples":                       smp.List(),
		"failure_matrix_cells_covered":  matrix.Len(),
		"failure_matrix_cells_possible": wantMatrix,
		"failure_cases_by_kind":         matrixKinds.Map(),
		"fragmentation_patterns":        frags.Map(),
		"classes":                       classes.Map(),
		"outcomes":                      outcomes.Map(),
		"source_side_events":            srcEvents.Map(),
		"exhaustive":                    false,
		"children":                      stats.Children,
	}, []string{
		"the verif-tagged hook VerifSwapRandSource installs the scripted reader; the reader is the harness's own and logs every Read",
		"when the error arrives alongside the read that completes the 4n/3 bytes the monitor accepts either the correct mnemonic with a nil error or (\"\", error) — all bytes were delivered, so the property's failure clause does not apply",
		"golden lists; reference encoder",
	})
}

// transientHistories runs histories of NewMnemonic calls over ONE source that stays installed:
// it fails in the middle of some calls and works again afterwards. judge receives, for every
// NewMnemonic call with an accepted count, the reads the source saw during the call and the
// bytes the source has delivered so far that no earlier successful call accounted for.
// What a call must do when the source fails during it is C06's question; that a call during
// which the source works succeeds with the encoding of delivered bytes — whatever happened in
// earlier calls — is also C09's ("given a working source") and C13's ("does not depend on
// earlier failures").
type transientCall struct {
	ops         []plan.Op
	i           int
	res         *plan.Res
	need        int
	failedNow   bool   // the source reported an error during this call before `need` bytes were delivered in it
	consulted   bool   // the source saw at least one read during this call
	unconsumed  []byte // bytes delivered so far (through this call) not yet attributed to a successful call
	matchedAt   int    // >= 0: the result encodes unconsumed[matchedAt:matchedAt+need]
	deliveredOK int    // bytes delivered during this call before any error
	disturbed   bool   // the source reported an error at some point during this call
	wrapped     bool   // the source sits inside a standard wrapper (bufio.Reader, io.MultiReader, ...) that may read ahead
}

func (e *Env) transientHistories(drv, label string, n int, judge func(c *transientCall)) (calls int) {
	var mu sync.Mutex
	// "panic": the caller-supplied source panics inside Read and the caller recovers; the calls
	// after it must work like after any other failure
	kinds := []string{"custom", "eof", "ueof", "temporary", "timeout", "eintr", "eagain", "deadline", "panic", "panic-string"}
	parallel(n, e.Workers, func(h int) {
		r := rng.New(e.Seed, label+"-transient-"+itoa(h))
		lang := r.Intn(ref.NLang)
		var ops []plan.Op
		add := func(op plan.Op) { op.I = len(ops); ops = append(ops, op) }
		// the script: reads are counted by the source, not by calls; a failing read delivers
		// 0..k bytes together with or before the error and the source then works again
		src := &plan.Src{Data: hx(r.Bytes(8192))}
		rounds := 4 + r.Intn(5)
		var counts []int
		for k := 0; k < rounds; k++ {
			cnt := ref.WordCounts[r.Intn(5)]
			need := cnt + cnt/3
			switch r.Intn(4) {
			case 0: // error before any byte of the call
				src.Steps = append(src.Steps, plan.Step{N: 0, E: kinds[r.Intn(len(kinds))], Once: true})
			case 1: // some bytes, then the error on the next read
				src.Steps = append(src.Steps, plan.Step{N: 1 + r.Intn(need-1)}, plan.Step{N: 0, E: kinds[r.Intn(len(kinds))], Once: true})
			case 2: // some bytes delivered together with the error
				src.Steps = append(src.Steps, plan.Step{N: 1 + r.Intn(need-1), E: kinds[r.Intn(len(kinds))], Once: true})
			case 3: // this call is not disturbed
			}
			counts = append(counts, cnt)
			// after a disturbed call, calls that find the source working
			for j := 0; j < 1+r.Intn(3); j++ {
				c2 := ref.WordCounts[r.Intn(5)]
				counts = append(counts, c2)
				src.Steps = append(src.Steps, plan.Step{N: c2 + c2/3})
			}
		}
		// every third history hands the source over inside a standard wrapper and without
		// failures (a wrapper may read ahead and defers errors, so only successes are judged:
		// each must encode the next unused bytes of the stream)
		wrapped := h%3 == 2
		if wrapped {
			src.Wrap = []string{"bufio", "bufio16", "multi", "limited", "iotest-onebyte", "func"}[(h/3)%6]
			for i := range src.Steps {
				src.Steps[i].E, src.Steps[i].Once = "", false
				if src.Steps[i].N == 0 {
					src.Steps[i].N = 1 + i%7
				}
			}
		}
		add(plan.Op{Fn: "srcset", Src: src})
		for _, cnt := range counts {
			add(plan.Op{Fn: "new", L: int64(lang), N: int64(cnt)})
			if r.Intn(3) == 0 {
				add(plan.Op{Fn: "chk", L: int64(lang), S: hxs("not a mnemonic")})
			}
		}
		add(plan.Op{Fn: "srcunset"})
		res, died := e.RunProc(drv, ops, nil, 0)
		if died != "" || len(res) != len(ops) {
			// a call that never returns after the source had failed (or panicked) earlier in the
			// process depends on that earlier failure; other deaths are C14's business
			if k := len(res); k < len(ops) && ops[k].Fn == "new" && (strings.Contains(died, "never returns") || strings.Contains(died, "all goroutines are asleep")) {
				sawFailure := false
				for i := 0; i < k; i++ {
					for _, ev := range res[i].Reads {
						if ev.E != "" {
							sawFailure = true
						}
					}
				}
				if sawFailure {
					e.Violate(&Violation{What: fmt.Sprintf("%s: after a call during which the source had failed, NewMnemonic(%d) on the same source never returns: %s", label, ops[k].N, oneLine(died, 300)), Ops: ops[:k+1], Detail: historyNote})
				}
			}
			return
		}
		var stream []byte // delivered and not yet attributed
		for i := range ops {
			if ops[i].Fn != "new" {
				continue
			}
			rr := &res[i]
			c := &transientCall{ops: ops, i: i, res: rr, need: int(ops[i].N) + int(ops[i].N)/3, matchedAt: -1}
			errSeen := false
			for _, ev := range rr.Reads {
				c.consulted = true
				stream = append(stream, unhex(ev.D)...)
				if !errSeen {
					c.deliveredOK += ev.N
				}
				if ev.E != "" {
					if c.deliveredOK < c.need {
						c.failedNow = true
					}
					errSeen = true
				}
			}
			c.unconsumed = stream
			c.disturbed = errSeen
			c.wrapped = wrapped
			if rr.Panic == "" && rr.Err == nil && rr.Out != "" {
				got := string(unhex(rr.Out))
				for k := 0; k+c.need <= len(stream); k++ {
					if e.Model.Enc(stream[k:k+c.need], int(ops[i].L)) == got {
						c.matchedAt = k
						break
					}
				}
			}
			judge(c)
			if c.matchedAt >= 0 {
				stream = stream[c.matchedAt+c.need:]
			} else if c.failedNow || !c.consulted {
				// bytes drawn by a failed call may be dropped or kept by the implementation
			}
			mu.Lock()
			calls++
			mu.Unlock()
		}
	})
	return calls
}

// workingSourceVerdict is the part of the judgement shared by C06, C09 and C13: a call during
// which the source reported no error must succeed with the encoding of bytes the source
// delivered; "" when the call is fine or not covered.
func (c *transientCall) workingSourceVerdict() string {
	rr := c.res
	if rr.Panic != "" && !c.failedNow && !c.disturbed && !strings.Contains(rr.Panic, "verif: the scripted source panicked") {
		return fmt.Sprintf("NewMnemonic(%d) panicked although the source delivered without any error during the call: %s", c.ops[c.i].N, oneLine(rr.Panic, 200))
	}
	if rr.Panic != "" || c.failedNow || c.disturbed {
		return ""
	}
	switch {
	case c.wrapped && rr.Err != nil:
		return fmt.Sprintf("NewMnemonic(%d) on a working source handed over inside a standard wrapper returned %q", c.ops[c.i].N, errText(rr.Err))
	case !c.consulted && rr.Err != nil && len(c.unconsumed) < c.need:
		return fmt.Sprintf("NewMnemonic(%d) returned %q without consulting the source at all (the source would have delivered; an earlier call in the same process had failed): the outcome depends on an earlier failure", c.ops[c.i].N, errText(rr.Err))
	case c.consulted && rr.Err != nil:
		return fmt.Sprintf("NewMnemonic(%d) returned %q although the source delivered %d bytes without any error during the call (an earlier call in the same process had failed)", c.ops[c.i].N, errText(rr.Err), c.deliveredOK)
	case rr.Err == nil && c.matchedAt < 0:
		return fmt.Sprintf("NewMnemonic(%d) returned %s, which does not encode any %d consecutive bytes the source has delivered and that no earlier call used", c.ops[c.i].N, preview(string(unhex(rr.Out))), c.need)
	}
	return ""
}

// c06Concurrent: see checkC06.
func (e *Env) c06Concurrent(drv string, procs int) (calls int) {
	var mu sync.Mutex

	kinds := []string{"custom", "eof", "ueof", "temporary", "eintr", "deadline"}
	parallel(procs, max(1, e.Workers/4), func(pi int) {
		r := rng.New(e.Seed, "C06-conc-"+itoa(pi))
		G := []int{4, 8, 16, 2}[pi%4]
		per := 24
		data := r.Bytes(G*per*40*2 + 4096)
		src := &plan.Src{Data: hx(data)}
		for k := 0; k < G*per*3; k++ {
			st := plan.Step{N: 1 + r.Intn(40)}
			switch r.Intn(9) {
			case 0:
				st = plan.Step{N: 0, E: kinds[r.Intn(len(kinds))], Once: true}
			case 1:
				st.E, st.Once = kinds[r.Intn(len(kinds))], true
			}
			src.Steps = append(src.Steps, st)
		}
		c := &plan.Conc{GoMaxProcs: []int{16, 2, 4, 1, 3}[pi%5], Shared: src}
		lang := r.Intn(ref.NLang)
		for w := 0; w < G; w++ {
			var ops []plan.Op
			for k := 0; k < per; k++ {
				ops = append(ops, plan.Op{I: k, Fn: "new", L: int64((lang + w%2) % ref.NLang), N: int64(ref.WordCounts[r.Intn(5)]), Shared: true})
			}
			c.Workers = append(c.Workers, ops)
		}
		cr := e.RunConc(drv, c, "c06-"+itoa(pi), nil, 10*time.Minute)
		viol := func(what string, detail any) {
			e.Violate(&Violation{What: fmt.Sprintf("%d goroutines calling NewMnemonic at the same time on one shared source that fragments and fails transiently (GOMAXPROCS %d): %s", G, c.GoMaxProcs, what), Conc: c, Detail: detail})
		}
		if v, inc := cr.hang(); v != "" {
			viol(v, cr.Stderr)
			return
		} else if inc != "" {
			fatalInconclusive("C06: concurrent process: %s", inc)
		}
		if cr.Trailer == nil {
			return // a crash is C12's and C14's business
		}
		gidOf := map[int64]int{}
		for _, inf := range cr.Trailer.Info {
			var w int
			var g int64
			if n, _ := fmt.Sscanf(inf, "worker%d=goid%d", &w, &g); n == 2 {
				gidOf[g] = w
			}
		}
		type ev struct {
			data []byte
			err  string
			g    int
		}
		var events []ev
		off := 0
		for _, re := range cr.Trailer.Reads {
			w, ok := gidOf[re.G]
			if !ok {
				return // read by a goroutine that is not a worker: not judged here (C07, C12)
			}
			events = append(events, ev{data: data[off : off+re.N], err: re.E, g: w})
			off += re.N
		}
		for i := range cr.Results {
			rr := &cr.Results[i]
			if rr.G < 0 || rr.G >= G || rr.Panic != "" {
				continue
			}
			op := &c.Workers[rr.G][rr.I]
			need := int(op.N) + int(op.N)/3
			// this call's reads: the events of its goroutine between the two positions of the
			// shared log the child noted before and after the call
			lo, hi := -1, -1
			for _, inf := range rr.Info {
				fmt.Sscanf(inf, "sharedlog=%d:%d", &lo, &hi)
			}
			if lo < 0 || hi < lo || hi > len(events) {
				continue
			}
			var got []byte
			errSeen := false
			for _, e1 := range events[lo:hi] {
				if e1.g != rr.G {
					continue
				}
				got = append(got, e1.data...)
				errSeen = errSeen || e1.err != ""
			}
			out := string(unhex(rr.Out))
			switch {
			case rr.Err == nil && out != "":
				// a mnemonic: it must encode the first 4n/3 bytes the source delivered to this
				// goroutine during the call (a consumer that goes on after a transient error and
				// collects all the bytes still returns such a mnemonic)
				if len(got) < need || e.Model.Enc(got[:need], int(op.L)) != out {
					viol(fmt.Sprintf("worker %d call %d: NewMnemonic(%d, %s) returned %s; during the call the source delivered %d bytes to this goroutine (%x), %s", rr.G, rr.I, op.N, ref.Names[op.L], preview(out), len(got), got[:min(len(got), need)], map[bool]string{true: "whose encoding is another sentence", false: "fewer than the " + itoa(need) + " needed"}[len(got) >= need]), rr)
					return
				}
			case rr.Err == nil:
				viol(fmt.Sprintf("worker %d call %d: NewMnemonic(%d, %s) returned the empty string and a nil error", rr.G, rr.I, op.N, ref.Names[op.L]), rr)
				return
			case out != "":
				viol(fmt.Sprintf("worker %d call %d: NewMnemonic(%d, %s) returned an error (%s) together with %s", rr.G, rr.I, op.N, ref.Names[op.L], errText(rr.Err), preview(out)), rr)
				return
			case !errSeen && len(got) >= need:
				viol(fmt.Sprintf("worker %d call %d: NewMnemonic(%d, %s) failed with %q although the source delivered %d bytes to this goroutine without any error during the call", rr.G, rr.I, op.N, ref.Names[op.L], errText(rr.Err), len(got)), rr)
				return
			}
			mu.Lock()
			calls++
			mu.Unlock()
		}
	})
	return calls
}
