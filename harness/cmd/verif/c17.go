package main

import (
	"compress/gzip"
	"context"
	"fmt"
	"go/ast"
	"go/importer"
	"go/parser"
	"go/token"
	"go/types"
	"io"
	"net"
	"net/http"
	"os"
	"os/exec"
	"path/filepath"
	"sort"
	"strconv"
	"strings"
	"sync"
	"time"
	"unicode"

	"aaverif/internal/plan"
	"aaverif/internal/ref"
	"aaverif/internal/rng"
)

func init() { register("C17", checkC17) }

const upstreamPath = "/bitcoin/bips/master/bip-0039/"

type c17run struct {
	name   string
	inputs map[string]string // file base name -> body served
	e2e    bool              // ten inputs with 2048 distinct words each: rebuild the repository with the output
	canon  bool              // the canonical lists
	shape  string
	fault  map[string]int  // file base name -> the first download of it is cut after this many body bytes
	moved  map[string]bool // file base name -> its path answers 301 to /moved/<name>.txt; the other names under /moved/ hold decoys
}

// httpShapes: ways in which the upstream stand-in dresses the same body.
var httpShapes = []string{"utf8", "no-charset", "octet-stream", "gzip", "chunked-small", "no-content-type", "conditional-get"}

// nonEmptyLines is the specification: the list must hold exactly these.
func nonEmptyLines(body string) []string {
	var out []string
	for _, l := range strings.Split(body, "\n") {
		if l != "" {
			out = append(out, l)
		}
	}
	return out
}

// wordAlphabet returns letters and combining marks known to both Go and CPython.
func (e *Env) wordAlphabet() (letters, marks []rune) {
	u := e.Uni()
	ranges := [][2]rune{{0x41, 0x24F}, {0x370, 0x52F}, {0x5D0, 0x5EA}, {0x620, 0x64A}, {0x904, 0x939}, {0xE01, 0xE30}, {0x1100, 0x11FF}, {0x3041, 0x3096}, {0x30A1, 0x30FA}, {0x4E00, 0x4FFF}, {0xAC00, 0xAD00}, {0xFB00, 0xFB06}, {0xFF21, 0xFF5A}, {0x1D400, 0x1D433}, {0x20000, 0x20100}}
	for _, rg := range ranges {
		for r := rg[0]; r <= rg[1]; r++ {
			if u.IsAssigned(r) && unicode.IsLetter(r) && strings.HasPrefix(u.Cat(r), "L") {
				letters = append(letters, r)
			}
		}
	}
	for _, rg := range [][2]rune{{0x300, 0x36F}, {0x591, 0x5BD}, {0x64B, 0x65F}, {0x93A, 0x94F}, {0x3099, 0x309A}, {0x1AB0, 0x1ABD}, {0x20D0, 0x20F0}} {
		for r := rg[0]; r <= rg[1]; r++ {
			if u.IsAssigned(r) && unicode.IsMark(r) && strings.HasPrefix(u.Cat(r), "M") {
				marks = append(marks, r)
			}
		}
	}
	return
}

func (e *Env) randomWord(r *rng.R, letters, marks []rune, style int) string {
	var sb strings.Builder
	n := 1 + r.Intn(9)
	switch style {
	case 1: // begins with a combining mark
		sb.WriteRune(marks[r.Intn(len(marks))])
	case 2: // very long
		n = 200 + r.Intn(3000)
	case 3: // marks only
		for i := 0; i < 1+r.Intn(3); i++ {
			sb.WriteRune(marks[r.Intn(len(marks))])
		}
		return sb.String()
	}
	base := letters[r.Intn(len(letters))]
	for i := 0; i < n; i++ {
		c := letters[r.Intn(len(letters))]
		if r.Intn(3) > 0 { // stay near one script most of the time
			c = base + rune(r.Intn(20))
			if !unicode.IsLetter(c) || !e.Uni().IsAssigned(c) {
				c = base
			}
		}
		sb.WriteRune(c)
		if r.Intn(4) == 0 {
			sb.WriteRune(marks[r.Intn(len(marks))])
			if r.Intn(3) == 0 {
				sb.WriteRune(marks[r.Intn(len(marks))]) // possibly in non-canonical order
			}
		}
	}
	return sb.String()
}

// makeBody lays words out as an LF-separated file with a blank-line shape.
func makeBody(r *rng.R, words []string, shape string) string {
	var lines []string
	switch shape {
	case "plain", "no-trailing-newline":
		lines = words
	case "blank-start":
		lines = append([]string{"", ""}, words...)
	case "blank-middle":
		for i, w := range words {
			lines = append(lines, w)
			if i%7 == 3 {
				lines = append(lines, "")
			}
		}
	case "blank-end":
		lines = append(append([]string{}, words...), "", "", "")
	case "blank-runs":
		for _, w := range words {
			for k := 0; k < r.Intn(4); k++ {
				lines = append(lines, "")
			}
			lines = append(lines, w)
		}
		lines = append(lines, "")
	}
	body := strings.Join(lines, "\n")
	if shape != "no-trailing-newline" && len(lines) > 0 {
		body += "\n"
	}
	return body
}

var goKeywords = []string{"break", "case", "chan", "const", "continue", "default", "defer", "else", "fallthrough", "for", "func", "go", "goto", "if", "import", "interface", "map", "package", "range", "return", "select", "struct", "switch", "type", "var", "nil", "true", "string"}

func (e *Env) c17runs() []*c17run {
	letters, marks := e.wordAlphabet()
	var runs []*c17run
	// canonical inputs
	canon := &c17run{name: "canonical", inputs: map[string]string{}, canon: true, e2e: true, shape: "plain"}
	for l, f := range ref.Files {
		canon.inputs[f] = strings.Join(e.Model.List[l], "\n") + "\n"
	}
	runs = append(runs, canon)
	// every assigned combining mark (Mn, Mc, Me) at the start of a word, at the end of a
	// word and alone; every assigned letter once (quick: every 7th), five per word;
	// duplicates, normal-form-sensitive words and Go keywords
	{
		u := e.Uni()
		var allMarks, allLetters []rune
		for cp := rune(0x80); cp < 0x110000; cp++ {
			if !u.IsAssigned(cp) {
				continue
			}
			switch {
			case strings.HasPrefix(u.Cat(cp), "M") && unicode.IsMark(cp):
				allMarks = append(allMarks, cp)
			case strings.HasPrefix(u.Cat(cp), "L") && unicode.IsLetter(cp):
				allLetters = append(allLetters, cp)
			}
		}
		var w1, w2, w3, w4 []string
		for _, mk := range allMarks {
			w1 = append(w1, string(mk)+"ab")
			w2 = append(w2, "ab"+string(mk))
			w3 = append(w3, string(mk))
		}
		stride := e.pick(7, 1)
		for i := 0; i+5 <= len(allLetters); i += 5 * stride {
			w4 = append(w4, string(allLetters[i:i+5]))
		}
		special := []string{"e\u0301", "\u00e9", "a\u0308\u0323", "a\u0323\u0308", "\u1112\u1161\u11ab", "\ud55c", "\ufb01", "\uff21", "\u212b", "\u00c5", "A\u030a", "\u0958", "\u0915\u093c",
			"dup", "dup", "dup", "Dup", "DUP", "\u0130", "\u0131", "\u017f", "\u1e9e", "\u00df", "\u03c2", "\u03c3", "\u03a3"}
		special = append(special, goKeywords...)
		mk := &c17run{name: "all-marks-and-letters", inputs: map[string]string{}, shape: "plain"}
		// one very long word (beyond 64 KiB scanner limits) and one very long file
		huge := []string{"ab", strings.Repeat("\u00e9\u4e00z", 60000), "cd"}
		var many []string
		for i := 0; i < 70000; i++ {
			many = append(many, string(allLetters[i%len(allLetters)])+string(rune('a'+i%26))+string(rune('a'+(i/26)%26)))
		}
		w3 = append(w3, huge...)
		w4 = append(w4, many...)
		lists := [][]string{w1, w2, w3, w4, special, append(append([]string{}, special...), special...), w1[:len(w1)/2], w2[len(w2)/2:], w3[:100], w4[:len(w4)/3]}
		for fi, f := range ref.Files {
			body := strings.Join(lists[fi], "\n")
			if fi%2 == 0 {
				body += "\n"
			}
			mk.inputs[f] = body
		}
		runs = append(runs, mk)
	}
	shapes := []string{"plain", "no-trailing-newline", "blank-start", "blank-middle", "blank-end", "blank-runs"}
	n := e.pick(11, 149)
	e2eEvery := e.pick(6, 16)
	for k := 0; k < n; k++ {
		r := rng.New(e.Seed, "C17-run-"+itoa(k))
		run := &c17run{name: "synthetic-" + itoa(k), inputs: map[string]string{}, shape: shapes[k%len(shapes)]}
		run.e2e = k%e2eEvery == 1
		for fi, f := range ref.Files {
			count := []int{0, 1, 2, 17, 2048, 5000, 300}[(k+fi)%7]
			if run.e2e {
				count = 2048
			}
			seen := map[string]bool{}
			var words []string
			for len(words) < count {
				style := 0
				switch r.Intn(12) {
				case 0:
					style = 1
				case 1:
					if !run.e2e && count < 100 {
						style = 2
					}
				case 2:
					style = 3
				}
				w := e.randomWord(r, letters, marks, style)
				if r.Intn(40) == 0 {
					w = goKeywords[r.Intn(len(goKeywords))]
				}
				if run.e2e && seen[w] {
					continue
				}
				seen[w] = true
				words = append(words, w)
			}
			shape := run.shape
			if k%3 == 0 {
				shape = shapes[(k+fi)%len(shapes)]
			}
			run.inputs[f] = makeBody(r, words, shape)
		}
		runs = append(runs, run)
	}
	// fault runs: the first download of some files is cut in the middle of the body (the
	// declared Content-Length is the full one, so the client sees an unexpected EOF). A tool
	// that gives up is fine; one that reports success must have written faithful files.
	nf := e.pick(4, 24)
	for k := 0; k < nf; k++ {
		r := rng.New(e.Seed, "C17-fault-"+itoa(k))
		base := runs[0]
		if k%2 == 1 {
			base = runs[len(runs)-1-(k/2)%8]
		}
		run := &c17run{name: "fault-" + itoa(k) + "-of-" + base.name, inputs: base.inputs, canon: base.canon, shape: "first-download-cut", fault: map[string]int{}}
		for j := 0; j < 1+k%3; j++ {
			f := ref.Files[r.Intn(len(ref.Files))]
			if body := base.inputs[f]; len(body) > 1 {
				run.fault[f] = []int{1, len(body) / 2, len(body) - 1, 1 + r.Intn(len(body)-1)}[(k+j)%4]
			}
		}
		runs = append(runs, run)
	}
	// moved runs: ONE list (the first, a middle or the last in file-name order; or three) has moved
	// and its path answers 301 to another directory, where the other names hold decoys (the
	// words of another list, reversed). Following the redirect for that file is right; taking the
	// new directory for the other files is not.
	names := append([]string(nil), ref.Files[:]...)
	sort.Strings(names)
	for k := 0; k < e.pick(4, 12); k++ {
		base := runs[0]
		if k%2 == 1 {
			base = runs[len(runs)-1-nf-(k/2)%8]
		}
		run := &c17run{name: "moved-" + itoa(k) + "-of-" + base.name, inputs: base.inputs, canon: base.canon, shape: "one-list-moved", moved: map[string]bool{}}
		switch k % 4 {
		case 0:
			run.moved[names[0]] = true
		case 1:
			run.moved[names[len(names)/2]] = true
		case 2:
			run.moved[names[len(names)-1]] = true
		case 3:
			run.moved[names[1]], run.moved[names[4]], run.moved[names[7]] = true, true, true
		}
		runs = append(runs, run)
	}
	return runs
}

func copyTree(src, dst string, skip func(rel string) bool) error {
	return filepath.Walk(src, func(p string, info os.FileInfo, err error) error {
		if err != nil {
			return err
		}
		rel, _ := filepath.Rel(src, p)
		if rel != "." && skip(rel) {
			if info.IsDir() {
				return filepath.SkipDir
			}
			return nil
		}
		if info.IsDir() {
			return os.MkdirAll(filepath.Join(dst, rel), 0755)
		}
		b, err := os.ReadFile(p)
		if err != nil {
			return err
		}
		return os.WriteFile(filepath.Join(dst, rel), b, 0644)
	})
}

func checkC17(e *Env) {
	// the tool, built from the monitored tree with the fetch-redirect hook
	tool := filepath.Join(e.Scratch, "update-wordlist")
	cmd := exec.Command("go", "build", "-tags", "verif", "-o", tool, "./update-wordlist")
	cmd.Dir = e.Repo
	cmd.Env = goEnv()
	if b, err := cmd.CombinedOutput(); err != nil {
		fatalInconclusive("building update-wordlist from %s failed: %v\n%s", e.Repo, err, b)
	}
	// the committed files: which variable each file declares
	committedVar := map[string]string{}
	committedWords := map[string][]string{}
	for _, f := range ref.Files {
		words, vars, err := parseWordlistFile(filepath.Join(e.Repo, "internal", "wordlist", f+".go"))
		if err == nil && len(vars) == 1 {
			committedVar[f] = vars[0]
			committedWords[f] = words
		}
	}

	obs := newCounter()
	shapes := newCounter()
	requests := newCounter()
	dist := newDistinct()
	smp := newSamples(6)
	var mu sync.Mutex
	wordsCompared := 0
	pairs := 0
	rebuilds := 0
	voidE2E := newCounter()
	httpShapeSeen := newCounter()

	runs := e.c17runs()
	parallel(len(runs), max(1, e.Workers/2), func(ri int) {
		run := runs[ri]
		viol := func(what string, detail any) {
			e.Violate(&Violation{What: fmt.Sprintf("update-wordlist run %s (%s): %s", run.name, run.shape, what), Detail: detail})
		}
		dir := filepath.Join(e.Scratch, "c17-"+itoa(ri))
		out := filepath.Join(dir, "internal", "wordlist")
		os.MkdirAll(out, 0755)
		defer os.RemoveAll(dir)
		if ri%2 == 1 || httpShapes[ri%len(httpShapes)] == "conditional-get" {
			// the target files already exist and are longer than what will be written: a tool
			// that does not truncate leaves a tail behind
			old := "// Code generated earlier; DO NOT EDIT.\n\npackage wordlist\n\nvar Old = []string{\n" + strings.Repeat("\t\"stale\",\n", 150000) + "}\n"
			for _, f := range ref.Files {
				os.WriteFile(filepath.Join(out, f+".go"), []byte(old), 0644)
			}
		}
		// upstream stand-in
		var rmu sync.Mutex
		var reqLog []string
		cutDone := map[string]bool{}
		ln, err := net.Listen("tcp", "127.0.0.1:0")
		if err != nil {
			fatalInconclusive("cannot listen on loopback: %v", err)
		}
		srv := &http.Server{Handler: http.HandlerFunc(func(w http.ResponseWriter, rq *http.Request) {
			rmu.Lock()
			reqLog = append(reqLog, rq.Method+" "+rq.URL.Path)
			rmu.Unlock()
			if strings.HasPrefix(rq.URL.Path, "/moved/") && strings.HasSuffix(rq.URL.Path, ".txt") && run.moved != nil {
				nm := strings.TrimSuffix(strings.TrimPrefix(rq.URL.Path, "/moved/"), ".txt")
				w.Header().Set("Content-Type", "text/plain; charset=utf-8")
				if b, ok := run.inputs[nm]; ok && run.moved[nm] {
					io.WriteString(w, b)
				} else {
					// a decoy: the lines of the alphabetically next list in reverse order
					other := ref.Files[(len(nm)+3)%len(ref.Files)]
					ls := nonEmptyLines(run.inputs[other])
					for i := len(ls) - 1; i >= 0; i-- {
						io.WriteString(w, ls[i]+"\n")
					}
					obs.Inc("decoy_files_served_from_the_moved_directory")
				}
				return
			}
			name := strings.TrimSuffix(strings.TrimPrefix(rq.URL.Path, upstreamPath), ".txt")
			if run.moved[name] && strings.HasPrefix(rq.URL.Path, upstreamPath) {
				obs.Inc("redirects_served")
				http.Redirect(w, rq, "/moved/"+name+".txt", http.StatusMovedPermanently)
				return
			}
			body, ok := run.inputs[name]
			if !ok || !strings.HasPrefix(rq.URL.Path, upstreamPath) || !strings.HasSuffix(rq.URL.Path, ".txt") {
				http.NotFound(w, rq)
				return
			}
			if cut, faulty := run.fault[name]; faulty {
				rmu.Lock()
				first := !cutDone[name]
				cutDone[name] = true
				rmu.Unlock()
				if hj, ok := w.(http.Hijacker); ok && first {
					if conn, buf, err := hj.Hijack(); err == nil {
						fmt.Fprintf(buf, "HTTP/1.1 200 OK\r\nContent-Type: text/plain; charset=utf-8\r\nContent-Length: %d\r\nConnection: close\r\n\r\n", len(body))
						buf.WriteString(body[:cut])
						buf.Flush()
						conn.Close()
						obs.Inc("downloads_cut_in_the_middle_of_the_body")
						return
					}
				}
			}
			// how the upstream dresses the same bytes varies from run to run: none of it may
			// change what the tool writes
			shape := httpShapes[ri%len(httpShapes)]
			httpShapeSeen.Inc(shape)
			switch shape {
			case "conditional-get":
				// an upstream that honours conditional requests: the file was last modified in
				// 2020, so a client that asks "modified since <some later time>?" is told 304
				lm := time.Date(2020, 1, 1, 0, 0, 0, 0, time.UTC)
				w.Header().Set("Last-Modified", lm.Format(http.TimeFormat))
				w.Header().Set("ETag", `"`+itoa(len(body))+`"`)
				w.Header().Set("Content-Type", "text/plain; charset=utf-8")
				if ims, err := http.ParseTime(rq.Header.Get("If-Modified-Since")); err == nil && !lm.After(ims) {
					w.WriteHeader(http.StatusNotModified)
					return
				}
				if inm := rq.Header.Get("If-None-Match"); inm != "" && inm == `"`+itoa(len(body))+`"` {
					w.WriteHeader(http.StatusNotModified)
					return
				}
			case "utf8":
				w.Header().Set("Content-Type", "text/plain; charset=utf-8")
			case "no-charset":
				w.Header().Set("Content-Type", "text/plain")
			case "octet-stream":
				w.Header().Set("Content-Type", "application/octet-stream")
			case "no-content-type":
				w.Header()["Content-Type"] = nil
			case "gzip":
				w.Header().Set("Content-Type", "text/plain; charset=utf-8")
				if strings.Contains(rq.Header.Get("Accept-Encoding"), "gzip") {
					w.Header().Set("Content-Encoding", "gzip")
					zw := gzip.NewWriter(w)
					io.WriteString(zw, body)
					zw.Close()
					return
				}
			case "chunked-small":
				w.Header().Set("Content-Type", "text/plain; charset=utf-8")
				fl, _ := w.(http.Flusher)
				for off := 0; off < len(body); {
					n := 1 + (off*7+ri)%977
					if off+n > len(body) {
						n = len(body) - off
					}
					io.WriteString(w, body[off:off+n])
					if fl != nil {
						fl.Flush()
					}
					off += n
				}
				return
			}
			io.WriteString(w, body)
		})}
		go srv.Serve(ln)
		defer srv.Close()
		ctx, cancel := context.WithTimeout(context.Background(), 2*time.Minute)
		defer cancel()
		tc := exec.CommandContext(ctx, tool)
		tc.Dir = dir
		tc.Env = append(os.Environ(), "VERIF_WORDLIST_URL=http://"+ln.Addr().String())
		tout, terr := tc.CombinedOutput()
		if terr != nil && len(run.fault) > 0 {
			obs.Inc("fault_runs_in_which_the_tool_gave_up(nothing_to_judge)")
			return
		}
		if terr != nil {
			viol(fmt.Sprintf("the tool failed: %v: %s", terr, oneLine(string(tout), 300)), string(tout))
			return
		}
		if len(run.fault) > 0 {
			obs.Inc("fault_runs_in_which_the_tool_reported_success(judged)")
		}
		obs.Inc("tool_runs")
		// requests observed
		rmu.Lock()
		got := append([]string(nil), reqLog...)
		rmu.Unlock()
		sort.Strings(got)
		var want []string
		for _, f := range ref.Files {
			want = append(want, "GET "+upstreamPath+f+".txt")
		}
		sort.Strings(want)
		if len(run.moved) > 0 {
			// the redirected requests of the moved files are expected
			var keep []string
			for _, g := range got {
				nm := strings.TrimSuffix(strings.TrimPrefix(g, "GET /moved/"), ".txt")
				if strings.HasPrefix(g, "GET /moved/") && run.moved[nm] {
					continue
				}
				keep = append(keep, g)
			}
			got = keep
		}
		if len(run.fault) > 0 {
			// repeated requests are legitimate after a cut download
			seen := map[string]bool{}
			var uniq []string
			for _, g := range got {
				if !seen[g] {
					seen[g] = true
					uniq = append(uniq, g)
				}
			}
			got = uniq
		}
		if strings.Join(got, ",") != strings.Join(want, ",") {
			viol(fmt.Sprintf("unexpected upstream requests: got %v, expected one GET per list", got), got)
			return
		}
		for _, g := range got {
			requests.Inc(strings.TrimPrefix(g, "GET "+upstreamPath))
		}
		// parse and type-check the ten files as one package
		fset := token.NewFileSet()
		var files []*ast.File
		for _, f := range ref.Files {
			path := filepath.Join(out, f+".go")
			af, err := parser.ParseFile(fset, path, nil, 0)
			if err != nil {
				src, _ := os.ReadFile(path)
				viol(fmt.Sprintf("generated %s.go does not parse: %v", f, err), oneLine(string(src), 600))
				return
			}
			files = append(files, af)
		}
		conf := types.Config{Importer: importer.Default()}
		if _, err := conf.Check("wordlist", fset, files, nil); err != nil {
			viol(fmt.Sprintf("the generated package does not type-check: %v", err), nil)
			return
		}
		others, _ := filepath.Glob(filepath.Join(out, "*"))
		if len(others) != len(ref.Files) {
			viol(fmt.Sprintf("the tool wrote %d files, expected %d", len(others), len(ref.Files)), others)
			return
		}
		for _, f := range ref.Files {
			words, vars, err := parseWordlistFile(filepath.Join(out, f+".go"))
			if err != nil {
				viol(fmt.Sprintf("generated %s.go: %v", f, err), nil)
				return
			}
			exp := nonEmptyLines(run.inputs[f])
			if len(words) != len(exp) {
				viol(fmt.Sprintf("generated %s.go holds %d words, the input has %d non-empty lines", f, len(words), len(exp)), map[string]any{"input": preview(run.inputs[f])})
				return
			}
			for i := range exp {
				if words[i] != exp[i] {
					viol(fmt.Sprintf("generated %s.go: entry %d is %s (%x), the input line is %s (%x)", f, i, preview(words[i]), words[i], preview(exp[i]), exp[i]), nil)
					return
				}
			}
			if len(vars) != 1 {
				viol(fmt.Sprintf("generated %s.go declares %v", f, vars), nil)
				return
			}
			if cv, ok := committedVar[f]; ok && vars[0] != cv {
				viol(fmt.Sprintf("generated %s.go declares variable %s, the committed file of that name declares %s (the one lang.go reads)", f, vars[0], cv), nil)
				return
			}
			if run.canon {
				if strings.Join(words, "\n") != strings.Join(committedWords[f], "\n") {
					viol(fmt.Sprintf("run on the canonical lists, generated %s.go differs from the committed list", f), nil)
					return
				}
				obs.Inc("canonical_files_equal_to_committed")
			}
			mu.Lock()
			wordsCompared += len(exp)
			pairs++
			mu.Unlock()
			dist.Add(f, run.inputs[f])
			blanks := len(strings.Split(run.inputs[f], "\n")) - len(exp) - boolInt(strings.HasSuffix(run.inputs[f], "\n"))
			shapes.Inc(fmt.Sprintf("words=%d blank_lines=%d trailing_newline=%v", len(exp), blanks, strings.HasSuffix(run.inputs[f], "\n")))
		}
		if run.e2e {
			// end to end: the generated files replace internal/wordlist in a scratch copy of
			// the repository, which must compile and expose, per language, the words served
			// under that language's file name
			observe := func(name string, file func(f string, lang int) []byte) string {
				repoCopy := filepath.Join(dir, name)
				if err := copyTree(e.Repo, repoCopy, func(rel string) bool { return rel == ".git" || strings.HasPrefix(rel, "internal/wordlist/") }); err != nil {
					fatalInconclusive("copying the repository: %v", err)
				}
				defer os.RemoveAll(repoCopy)
				os.MkdirAll(filepath.Join(repoCopy, "internal", "wordlist"), 0755)
				for lang, f := range ref.Files {
					os.WriteFile(filepath.Join(repoCopy, "internal", "wordlist", f+".go"), file(f, lang), 0644)
				}
				sub := &Env{Prop: e.Prop, Tier: e.Tier, Seed: e.Seed, Verif: e.Verif, Harness: e.Harness, Repo: repoCopy, Scratch: filepath.Join(dir, name+"-build"), drv: map[string]string{}}
				os.MkdirAll(sub.Scratch, 0755)
				defer os.RemoveAll(sub.Scratch)
				drv, berr := sub.tryBuildDrv()
				if berr != "" {
					return "the repository does not compile with the generated files: " + oneLine(berr, 400)
				}
				var ops []plan.Op
				type probe struct{ lang, idx int }
				var probes []probe
				r := rng.New(e.Seed, "C17-e2e-"+itoa(ri))
				for lang := 0; lang < ref.NLang; lang++ {
					for i := 0; i < 2048; i++ {
						first := make([]int, 11)
						for k := range first {
							first[k] = r.Intn(2048)
						}
						first[0] = i
						ops = append(ops, plan.Op{I: len(ops), Fn: "enc", L: int64(lang), E: hx(entropyFromIndices(16, first, 0))})
						probes = append(probes, probe{lang, i})
					}
				}
				res, died := e.RunProc(drv, ops, nil, 0)
				if died != "" {
					return "the rebuilt repository crashed while emitting words: " + oneLine(died, 300)
				}
				for k, pr := range probes {
					served := nonEmptyLines(run.inputs[ref.Files[pr.lang]])
					w := strings.Split(string(unhex(res[k].Out)), ref.Sep(pr.lang))[0]
					if res[k].Panic != "" || w != served[pr.idx] {
						return fmt.Sprintf("after regenerating, %s index %d emits %s but %s.txt line %d is %s: the generated file feeds the wrong language", ref.Names[pr.lang], pr.idx, preview(w), ref.Files[pr.lang], pr.idx, preview(served[pr.idx]))
					}
				}
				obs.Add("words_observed_through_rebuilt_api", len(probes))
				return ""
			}
			why := observe("repo", func(f string, lang int) []byte {
				b, _ := os.ReadFile(filepath.Join(out, f+".go"))
				return b
			})
			if why != "" {
				// control: the same words written into the package by the harness itself (same
				// variable names as the committed files). If the library misreports those too,
				// the API cannot show what the tool generated and this run's end-to-end
				// observation is void; the tool is at fault only when the control is clean.
				control := observe("control", func(f string, lang int) []byte {
					var sb strings.Builder
					sb.WriteString("package wordlist\n\nvar " + ref.Names[lang] + " = []string{\n")
					for _, w := range nonEmptyLines(run.inputs[f]) {
						sb.WriteString("\t" + strconv.Quote(w) + ",\n")
					}
					sb.WriteString("}\n")
					return []byte(sb.String())
				})
				if control == "" {
					viol(why, nil)
					return
				}
				obs.Inc("end_to_end_runs_void_because_the_library_misreports_harness_written_lists_too")
				voidE2E.Inc(oneLine(control, 120))
			} else {
				mu.Lock()
				rebuilds++
				mu.Unlock()
			}
		}
		smp.Add(map[string]any{"run": run.name, "shape": run.shape, "end_to_end_rebuild": run.e2e, "requests": got[:2], "example_input": preview(run.inputs["korean"])})
	})

	if e.Violations() == 0 && (pairs < 20 || rebuilds+voidE2E.Total() == 0) {
		fatalInconclusive("C17: %d (file, input) pairs and %d rebuilds observed", pairs, rebuilds)
	}
	e.WriteEvidence("exploration", map[string]any{
		"evaluations":                 pairs,
		"distinct_nontrivial":         dist.Len(),
		"rule":                        "a case is one (target file, upstream body) pair; one run of the tool (built from the tree with the verif fetch-redirect hook, run in a scratch directory against a loopback HTTP server operated by the parent) yields ten pairs; inputs: the canonical lists, and seeded LF-separated files of letters and combining marks (Latin, Greek, Cyrillic, Hebrew, Arabic, Devanagari, Thai, Hangul jamo and syllables, kana, CJK incl. plane 2, ligatures, full-width and mathematical letters; marks also leading, doubled and in non-canonical order; Go keywords; words up to 3000 letters) with 0, 1, 2, 17, 300, 2048 and 5000 words, with and without trailing newline and with blank lines at start, middle, end and in runs; every generated file is parsed and type-checked (all ten as one package), its literals compared byte-for-byte with the non-empty input lines, its variable name compared with the committed file's, the request log compared with the ten expected paths; runs with ten 2048-word inputs are additionally rebuilt into a scratch copy of the repository whose API must emit, per language, the words served under that language's file name (when it does not, the same words written into the package by the harness are observed as a control: the tool is blamed only when the control is clean); the upstream stand-in varies how it dresses the same bytes from run to run (Content-Type with or without a charset, octet-stream, no Content-Type, gzip content encoding, small chunks, an upstream that honours conditional requests and whose files are older than anything on the local disk); runs in which one or three lists have moved (their paths answer 301 to another directory whose other names hold decoys); fault runs in which the first download of one to three files is cut inside the body (full Content-Length declared): a tool that gives up is not judged, one that reports success is judged like any other run; non-trivial = every pair; distinct by (file, body)",
		"samples":                     smp.List(),
		"tool_runs":                   obs.Get("tool_runs"),
		"observations":                obs.Map(),
		"words_compared":              wordsCompared,
		"scratch_repository_rebuilds": rebuilds,
		"end_to_end_runs_void_because_the_library_misreports_harness_written_lists_too": voidE2E.Map(),
		"requests_per_file":       requests.Map(),
		"responses_by_http_shape": httpShapeSeen.Map(),
		"input_shapes":            len(shapes.Map()),
	}, []string{
		"loopback HTTP works in the sandbox; the hook only rewrites scheme and host of the tool's requests, the path (file name to variable mapping) is the tool's own",
		"characters outside the property's domain (quotes, <, &, backslash, CR) are not generated",
	})
}

func boolInt(b bool) int {
	if b {
		return 1
	}
	return 0
}

// tryBuildDrv builds the child against e.Repo and returns the compiler output on failure.
func (e *Env) tryBuildDrv() (path, buildErr string) {
	out := filepath.Join(e.Scratch, "drv-e2e")
	args := append([]string{"build", "-tags", "verif"}, e.modfileArgs()...)
	args = append(args, "-o", out, "./cmd/drv")
	cmd := exec.Command("go", args...)
	cmd.Dir = e.Harness
	cmd.Env = goEnv()
	if b, err := cmd.CombinedOutput(); err != nil {
		return "", string(b)
	}
	return out, ""
}
