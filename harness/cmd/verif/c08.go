package main

import (
	"fmt"
	"go/ast"
	"go/parser"
	"go/token"
	"path/filepath"
	"strconv"
	"strings"
	"sync"
	"unicode"

	"aaverif/internal/plan"
	"aaverif/internal/ref"
	"aaverif/internal/rng"
)

func init() { register("C08", checkC08) }

type c08exp struct {
	kind string // first | penultimate | accept | neighbour
	lang int
	idx  int
	ent  []byte
	sent string
	want ref.Status
}

type c08mono struct {
	lang int
	op   *plan.Op
	res  *plan.Res
}

type c08wrong struct {
	accept, neighbour int
	op                *plan.Op
	res               *plan.Res
	kind              string
	want              ref.Status
}

func checkC08(e *Env) {
	drv := e.BuildDrv(false)
	var mu sync.Mutex
	var emitted [ref.NLang][2048]string
	var emittedOK [ref.NLang][2048]bool
	var acceptedOK [ref.NLang][2048]int
	var verdicts, wrongVerdicts [ref.NLang]int // validation verdicts used to observe the reverse map
	kinds := newCounter()
	smp := newSamples(6)
	dist := newDistinct()
	wrongByWord := map[[2]int]*c08wrong{}
	monoRejected := map[int][]c08mono{} // index -> languages whose one-word sentence was rejected

	stats := e.RunStream(StreamOpts{Drv: drv}, func(emit func(*Item)) {
		for lang := 0; lang < ref.NLang; lang++ {
			r := rng.New(e.Seed, "C08-"+itoa(lang))
			for i := 0; i < 2048; i++ {
				// word i emitted first (12 words) and last-but-one (24 words)
				first := make([]int, 11)
				for k := range first {
					first[k] = r.Intn(2048)
				}
				first[0] = i
				ent := entropyFromIndices(16, first, r.Intn(128))
				// (from a buffer the caller recycles: new content, same backing array)
				emit(&Item{Op: plan.Op{Fn: "enc", L: int64(lang), E: hx(ent), Arena: true}, Exp: c08exp{kind: "first", lang: lang, idx: i, ent: ent}})
				long := make([]int, 23)
				for k := range long {
					long[k] = r.Intn(2048)
				}
				long[22] = i
				ent2 := entropyFromIndices(32, long, r.Intn(8))
				emit(&Item{Op: plan.Op{Fn: "enc", L: int64(lang), E: hx(ent2)}, Exp: c08exp{kind: "penultimate", lang: lang, idx: i, ent: ent2}})
				// a sentence made of word i alone (23 times, then the word the checksum asks
				// for): whatever validation does with it can only be about this word
				mono := make([]int, 23)
				for j := range mono {
					mono[j] = i
				}
				midx := ref.Indices(entropyFromIndices(32, mono, 0))
				mw := make([]string, len(midx))
				for j, v := range midx {
					mw[j] = e.Model.List[lang][v]
				}
				emit(&Item{Op: plan.Op{Fn: "chk", L: int64(lang), S: hxs(strings.Join(mw, " "))}, Exp: c08exp{kind: "mono", lang: lang, idx: i, want: ref.OK}})
				// inverse direction: four reference sentences containing word i must be
				// accepted; with word i replaced by its list neighbour the verdict must be
				// the reference decoder's
				for k := 0; k < 4; k++ {
					pos := []int{0, 7, 15, 22}[k]
					w := make([]int, 23)
					for j := range w {
						w[j] = r.Intn(2048)
					}
					w[pos] = i
					idx := ref.Indices(entropyFromIndices(32, w, r.Intn(8)))
					words := make([]string, len(idx))
					for j, v := range idx {
						words[j] = e.Model.List[lang][v]
					}
					s := strings.Join(words, " ")
					emit(&Item{Op: plan.Op{Fn: "chk", L: int64(lang), S: hxs(s)}, Exp: c08exp{kind: "accept", lang: lang, idx: i, sent: s, want: ref.OK}})
					words[pos] = e.Model.List[lang][i^1]
					s2 := strings.Join(words, " ")
					_, st, _ := e.Model.Dec(words, lang)
					emit(&Item{Op: plan.Op{Fn: "chk", L: int64(lang), S: hxs(s2)}, Exp: c08exp{kind: "neighbour", lang: lang, idx: i, sent: s2, want: st}})
				}
			}
		}
	}, func(it *Item, r *plan.Res) {
		x := it.Exp.(c08exp)
		kinds.Inc(x.kind)
		if f := failure(r); f != "" {
			e.Violate(&Violation{What: "call did not return normally: " + f, Ops: []plan.Op{it.Op}, Observed: r})
			return
		}
		golden := e.Model.List[x.lang][x.idx]
		switch x.kind {
		case "first", "penultimate":
			if r.Err != nil {
				e.Violate(&Violation{What: "NewMnemonicByEntropy failed: " + errText(r.Err), Ops: []plan.Op{it.Op}, Observed: r})
				return
			}
			toks := strings.Split(string(unhex(r.Out)), ref.Sep(x.lang))
			pos := 0
			if x.kind == "penultimate" {
				pos = 22
			}
			if len(toks) <= pos {
				e.Violate(&Violation{What: fmt.Sprintf("sentence has %d tokens, cannot observe position %d", len(toks), pos), Ops: []plan.Op{it.Op}, Observed: r})
				return
			}
			w := toks[pos]
			if w != golden {
				e.Violate(&Violation{What: fmt.Sprintf("%s list, index %d: the API emits %s (%x), the canonical BIP39 word is %s (%x)", ref.Names[x.lang], x.idx, preview(w), w, preview(golden), golden),
					Ops: []plan.Op{it.Op}, Expected: map[string]string{"word": golden, "word_hex": hxs(golden), "out_hex": hxs(e.Model.Enc(x.ent, x.lang))}, Observed: r})
				return
			}
			mu.Lock()
			emitted[x.lang][x.idx] = w
			emittedOK[x.lang][x.idx] = true
			mu.Unlock()
			dist.Add(itoa(x.lang), itoa(x.idx))
			if x.idx%500 == 3 {
				smp.Add(map[string]any{"language": ref.Names[x.lang], "index": x.idx, "emitted": w, "emitted_hex": hxs(w), "position": pos})
			}
		case "mono":
			if r.Err != nil && errClassOf(r.Err) == "other" {
				e.Violate(&Violation{What: fmt.Sprintf("%s list: the valid sentence made of word %d (%s) 23 times and its checksum word is rejected with %q: validation does not know a list word", ref.Names[x.lang], x.idx, preview(golden), errText(r.Err)),
					Ops: []plan.Op{it.Op}, Expected: ref.OK.String(), Observed: r})
				return
			}
			mu.Lock()
			verdicts[x.lang]++
			if r.Err != nil {
				wrongVerdicts[x.lang]++
				op, rr := it.Op, *r
				monoRejected[x.idx] = append(monoRejected[x.idx], c08mono{lang: x.lang, op: &op, res: &rr})
			}
			mu.Unlock()
		case "accept", "neighbour":
			accepted := r.Err == nil
			mu.Lock()
			verdicts[x.lang]++
			if accepted != (x.want == ref.OK) {
				wrongVerdicts[x.lang]++
			}
			mu.Unlock()
			if accepted != (x.want == ref.OK) {
				if x.kind == "accept" && errClassOf(r.Err) == "other" {
					e.Violate(&Violation{What: fmt.Sprintf("%s list: a sentence of 24 list words with a correct checksum is rejected with %q: validation does not know a list word", ref.Names[x.lang], errText(r.Err)),
						Ops: []plan.Op{it.Op}, Expected: ref.OK.String(), Observed: r})
					return
				}
				// judged per word after the run: see below
				mu.Lock()
				k := [2]int{x.lang, x.idx}
				wv := wrongByWord[k]
				if wv == nil {
					wv = &c08wrong{}
					wrongByWord[k] = wv
				}
				if x.kind == "accept" {
					wv.accept++
				} else {
					wv.neighbour++
				}
				if wv.op == nil || x.kind == "accept" {
					op, rr := it.Op, *r
					wv.op, wv.res, wv.kind, wv.want = &op, &rr, x.kind, x.want
				}
				mu.Unlock()
				return
			}
			if x.kind == "accept" {
				mu.Lock()
				acceptedOK[x.lang][x.idx]++
				mu.Unlock()
			}
		}
	})

	// the same enumeration after a history of failed validations (typo'd tokens that resemble
	// list words, prefixes, other lists' words): the lists must still be the canonical ones
	afterHistory := 0
	parallel(ref.NLang, e.Workers, func(lang int) {
		r := rng.New(e.Seed, "C08-history-"+itoa(lang))
		var ops []plan.Op
		add := func(op plan.Op) { op.I = len(ops); ops = append(ops, op) }
		for k := 0; k < 120; k++ {
			w := e.Model.Words(r.Bytes(ref.EntSizes[k%5]), lang)
			pos := r.Intn(len(w))
			rs := []rune(w[pos])
			switch k % 6 {
			case 0:
				w[pos] += "x"
			case 1:
				w[pos] = string(rs[:(len(rs)+1)/2]) + "q"
			case 2:
				w[pos] = e.Model.List[(lang+1)%ref.NLang][r.Intn(2048)]
			case 3:
				w[pos] = strings.ToUpper(w[pos]) + "z"
			case 4:
				w[pos] = w[pos] + w[(pos+1)%len(w)]
			case 5:
				w = w[:len(w)-1]
			}
			add(plan.Op{Fn: "chkval", L: int64(lang), S: hxs(strings.Join(w, " "))})
		}
		nh := len(ops)
		for i := 0; i < 2048; i++ {
			first := make([]int, 11)
			for k := range first {
				first[k] = r.Intn(2048)
			}
			first[0] = i
			add(plan.Op{Fn: "enc", L: int64(lang), E: hx(entropyFromIndices(16, first, r.Intn(128)))})
		}
		res, died := e.RunProc(drv, ops, nil, 0)
		if died != "" {
			e.Violate(&Violation{What: "the process died during a history of validations followed by a list enumeration: " + oneLine(died, 300), Ops: ops[:min(len(res)+1, len(ops))]})
			return
		}
		for i := 0; i < 2048; i++ {
			r := &res[nh+i]
			w := strings.Split(string(unhex(r.Out)), ref.Sep(lang))[0]
			if r.Panic != "" || w != e.Model.List[lang][i] {
				e.Violate(&Violation{What: fmt.Sprintf("after a history of failed validations in the same process, %s index %d emits %s, the canonical word is %s", ref.Names[lang], i, preview(w), preview(e.Model.List[lang][i])),
					Ops: append(append([]plan.Op(nil), ops[:nh]...), ops[nh+i]), Expected: map[string]string{"word": e.Model.List[lang][i]}, Observed: r, Detail: "the last call emits the word; the preceding ones are the history"})
				return
			}
		}
		mu.Lock()
		afterHistory += 2048
		mu.Unlock()
	})

	// the reverse map under other runtime settings: every index of every language validated in
	// a fresh process started with a GOMAXPROCS that does not divide 2048 (a table built in
	// parallel chunks, or sized from the CPU count, must still hold every word)
	underSettings := 0
	procsList := []int{3, 5, 6, 7, 12}
	if e.Thorough() {
		procsList = []int{3, 5, 6, 7, 9, 10, 11, 12, 13, 14, 15, 24, 31, 48, 100}
	}
	parallel(len(procsList), e.Workers, func(pi int) {
		P := procsList[pi]
		r := rng.New(e.Seed, "C08-procs-"+itoa(P))
		var ops []plan.Op
		for lang := 0; lang < ref.NLang; lang++ {
			for next := 0; next < 2048; next += 23 {
				first := make([]int, 23)
				for i := range first {
					first[i] = (next + i) % 2048
				}
				idx := ref.Indices(entropyFromIndices(32, first, r.Intn(8)))
				words := make([]string, len(idx))
				for j, v := range idx {
					words[j] = e.Model.List[lang][v]
				}
				ops = append(ops, plan.Op{I: len(ops), Fn: "chk", L: int64(lang), S: hxs(strings.Join(words, " "))})
			}
		}
		env := []string{"GOMAXPROCS=" + itoa(P), "VERIF_ENVTAG=GOMAXPROCS=" + itoa(P)}
		res, died := e.RunProc(drv, ops, env, 0)
		if died != "" {
			return // a crash is not C08's subject
		}
		for i := range res {
			if res[i].Err != nil && errClassOf(res[i].Err) == "other" {
				e.Violate(&Violation{What: fmt.Sprintf("in a process started with GOMAXPROCS=%d a sentence of 24 %s list words with a correct checksum is rejected with %q: validation does not know a list word", P, ref.Names[ops[i].L], errText(res[i].Err)),
					Ops: []plan.Op{ops[i]}, ChildEnv: env, Expected: ref.OK.String(), Observed: res[i]})
				return
			}
		}
		mu.Lock()
		underSettings += len(res) * 23
		mu.Unlock()
	})

	// the list read back through an arena: the 2048 entropies whose first 11 bits are 0..2047 lie
	// back to back in ONE caller-owned buffer and are encoded one after the other (a caller
	// that carves its entropies out of a larger buffer must see the same list)
	arenaWords := 0
	parallel(ref.NLang, e.Workers, func(lang int) {
		r := rng.New(e.Seed, "C08-arena-"+itoa(lang))
		buf := make([]byte, 0, 2048*16)
		for i := 0; i < 2048; i++ {
			first := make([]int, 11)
			for k := range first {
				first[k] = r.Intn(2048)
			}
			first[0] = i
			buf = append(buf, entropyFromIndices(16, first, r.Intn(128))...)
		}
		op := plan.Op{Fn: "encslab", L: int64(lang), N: 16, E: hx(buf)}
		res, died := e.RunProc(drv, []plan.Op{op}, nil, 0)
		if died != "" || len(res) != 1 || res[0].Panic != "" {
			return // crashes are not C08's subject
		}
		sents := strings.Split(string(unhex(res[0].Out)), "\n")
		for i := 0; i < 2048 && i < len(sents); i++ {
			if w := strings.Split(sents[i], ref.Sep(lang))[0]; w != e.Model.List[lang][i] {
				e.Violate(&Violation{What: fmt.Sprintf("%s list read back through one caller-owned buffer holding the 2048 entropies back to back: the entropy whose first 11 bits are %d emits %s, the canonical word is %s", ref.Names[lang], i, preview(w), preview(e.Model.List[lang][i])),
					Ops: []plan.Op{op}, Expected: map[string]string{"word": e.Model.List[lang][i]}, Observed: map[string]any{"window": i, "sentence": sents[i]}})
				return
			}
		}
		mu.Lock()
		arenaWords += min(len(sents), 2048)
		mu.Unlock()
	})

	// the concurrent flavour of this monitor (C12 is the full treatment)
	ambiguousConc := newCounter()
	concCalls := e.concurrentSmoke(drv, "C08", append(e.smokePool("C08", "chk"), e.smokePool("C08", "enc")...), e.pick(4, 12), e.pick(200, 1000), e.smokeListWords(ambiguousConc))

	// The reverse map (word -> index) is observed through validation verdicts. If validation is
	// wrong for a large share of ALL sentences of a language, the cause is not a few list entries
	// (a swapped pair affects well under 2 % of the sentences) but validation itself — C02/C03's
	// business — and the reverse map cannot be observed: inconclusive, not a violation.
	for lang := 0; lang < ref.NLang; lang++ {
		if verdicts[lang] > 0 && wrongVerdicts[lang]*4 > verdicts[lang] {
			fatalInconclusive("C08: validation gives the wrong verdict for %d of %d crafted %s sentences: the word->index map cannot be observed through it (see C02/C03)", wrongVerdicts[lang], verdicts[lang], ref.Names[lang])
		}
	}
	// A word whose reverse mapping is wrong makes (nearly) every valid sentence containing it
	// fail, and a word mapped onto its neighbour's index makes (nearly) every neighbour sentence
	// pass. One or two wrong verdicts out of four crafted sentences are not explained by the
	// word: they are validation failures of some other kind (C02/C03) and are only counted.
	unexplained := 0
	for k, wv := range wrongByWord {
		lang, idx := k[0], k[1]
		golden := e.Model.List[lang][idx]
		switch {
		case wv.accept >= 3:
			e.Violate(&Violation{What: fmt.Sprintf("%s list: %d of 4 valid sentences containing word %d (%s) at different positions are rejected (%q): validation does not map the word back to index %d", ref.Names[lang], wv.accept, idx, preview(golden), errText(wv.res.Err), idx),
				Ops: []plan.Op{*wv.op}, Expected: ref.OK.String(), Observed: wv.res})
		case wv.neighbour >= 3:
			e.Violate(&Violation{What: fmt.Sprintf("%s list: with word %d replaced by its neighbour %d, %d of 4 sentences get a verdict other than the reference decoder's (%q expected, CheckMnemonic says %q): validation maps a word to the wrong index", ref.Names[lang], idx, idx^1, wv.neighbour, wv.want, errText(wv.res.Err)),
				Ops: []plan.Op{*wv.op}, Expected: wv.want.String(), Observed: wv.res})
		default:
			unexplained += wv.accept + wv.neighbour
		}
	}
	// One-word sentences: all ten languages encode the same entropy for index i, so a rejection
	// in every language is about the entropy (C02's business); a rejection in some languages
	// only is about those languages' word.
	for idx, rej := range monoRejected {
		if len(rej) == ref.NLang {
			unexplained += len(rej)
			continue
		}
		for _, m := range rej {
			if s := e.Solo(drv, *m.op); failure(s) == "" && s.Err == nil {
				unexplained++ // accepted when validated alone: an effect of earlier calls (C13), not of the word
				continue
			}
			e.Violate(&Violation{What: fmt.Sprintf("%s list: the valid sentence made of word %d (%s) 23 times and its checksum word is rejected with %q, while the sentence of the same indices is accepted under %d other languages: validation does not map this word back to index %d in every sentence", ref.Names[m.lang], idx, preview(e.Model.List[m.lang][idx]), errText(m.res.Err), ref.NLang-len(rej), idx),
				Ops: []plan.Op{*m.op}, Expected: ref.OK.String(), Observed: m.res})
		}
	}
	// well-formedness of what the API emitted
	py := e.Py()
	complete := 0
	for lang := 0; lang < ref.NLang; lang++ {
		seen := map[string]int{}
		var ws []string
		for i := 0; i < 2048; i++ {
			if !emittedOK[lang][i] {
				continue
			}
			complete++
			w := emitted[lang][i]
			ws = append(ws, w)
			if j, dup := seen[w]; dup {
				e.Violate(&Violation{What: fmt.Sprintf("%s list: indices %d and %d emit the same word %s", ref.Names[lang], j, i, preview(w))})
			}
			seen[w] = i
			if w == "" {
				e.Violate(&Violation{What: fmt.Sprintf("%s list: index %d emits the empty word", ref.Names[lang], i)})
			}
			if strings.IndexFunc(w, unicode.IsSpace) >= 0 {
				e.Violate(&Violation{What: fmt.Sprintf("%s list: word %d contains white space: %s", ref.Names[lang], i, preview(w))})
			}
		}
		if len(ws) > 0 {
			n, ok := py.Normalize("NFKD", ws)
			for k := range ws {
				if !ok[k] || n[k] != ws[k] {
					e.Violate(&Violation{What: fmt.Sprintf("%s list: word %s is changed by NFKD (%x -> %x)", ref.Names[lang], preview(ws[k]), ws[k], n[k])})
				}
			}
		}
	}
	// secondary observation: the source text of internal/wordlist/*.go
	srcChecked := 0
	for lang, name := range ref.Files {
		path := filepath.Join(e.Repo, "internal", "wordlist", name+".go")
		words, vars, err := parseWordlistFile(path)
		if err != nil {
			e.Violate(&Violation{What: fmt.Sprintf("%s does not parse: %v", path, err)})
			continue
		}
		if len(vars) != 1 || vars[0] != ref.Names[lang] {
			e.Violate(&Violation{What: fmt.Sprintf("%s declares %v, expected exactly one []string variable %s", path, vars, ref.Names[lang])})
			continue
		}
		if len(words) != 2048 {
			e.Violate(&Violation{What: fmt.Sprintf("%s holds %d string literals, expected 2048", path, len(words))})
			continue
		}
		for i, w := range words {
			if w != e.Model.List[lang][i] {
				e.Violate(&Violation{What: fmt.Sprintf("%s: literal %d is %s, canonical word is %s", path, i, preview(w), preview(e.Model.List[lang][i]))})
				break
			}
			srcChecked++
		}
	}
	if e.Violations() == 0 && complete != ref.NLang*2048 {
		fatalInconclusive("C08: only %d of %d list entries were observed", complete, ref.NLang*2048)
	}
	minAcc := 4
	for lang := 0; lang < ref.NLang; lang++ {
		for i := 0; i < 2048; i++ {
			if acceptedOK[lang][i] < minAcc {
				minAcc = acceptedOK[lang][i]
			}
		}
	}
	e.WriteEvidence("exploration", map[string]any{
		"evaluations":                       stats.Ops,
		"distinct_nontrivial":               dist.Len(),
		"calls_repeated_under_concurrency":  concCalls,
		"rule":                              "finite domain enumerated completely: for each of the 10 languages and each index 0..2047, the word the API emits at the first position of a 12-word sentence (the entropy passed in a buffer the caller recycles) and at the last-but-one position of a 24-word sentence is compared byte-for-byte with the golden list; the 2048 emitted words per language are checked for distinctness, non-emptiness, absence of Unicode white space and NFKD stability (CPython); for each word the 24-word sentence made of that word alone plus its checksum word must be accepted (a rejection shared by all ten languages is about the entropy, not the word), four 24-word reference sentences containing it must be accepted (a word is blamed when at least three of the four fail) and the same sentences with the word replaced by its list neighbour must get the reference decoder's verdict; per language the enumeration is repeated in a process that first went through 120 failed validations (typo'd tokens resembling list words); the source files under internal/wordlist are parsed and compared literal by literal; non-trivial = every (language, index); distinct = (language, index) pairs observed through the API",
		"samples":                           smp.List(),
		"exhaustive":                        true,
		"list_entries_observed_through_api": complete,
		"list_entries_possible":             ref.NLang * 2048,
		"observations_by_kind":              kinds.Map(),
		"min_accepting_sentences_per_word":  minAcc,
		"wrong_validation_verdicts_not_explained_by_a_word":                 unexplained,
		"source_literals_compared":                                          srcChecked,
		"list_entries_observed_again_after_a_history_of_failed_validations": afterHistory,
		"children": stats.Children,
	}, []string{
		"the golden lists frozen in /verif/golden are the canonical BIP39 lists: extracted once from the pinned commit; only the English SHA-256 could be tied to the published digest offline",
		"CPython unicodedata for NFKD stability",
	})
}

// parseWordlistFile returns the string literals of the single composite
// literal in a generated word list file and the names of its package-level variables.
func parseWordlistFile(path string) (words []string, vars []string, err error) {
	f, err := parser.ParseFile(token.NewFileSet(), path, nil, 0)
	if err != nil {
		return nil, nil, err
	}
	for _, d := range f.Decls {
		gd, ok := d.(*ast.GenDecl)
		if !ok || gd.Tok != token.VAR {
			continue
		}
		for _, sp := range gd.Specs {
			vs := sp.(*ast.ValueSpec)
			for _, n := range vs.Names {
				vars = append(vars, n.Name)
			}
			for _, v := range vs.Values {
				cl, ok := v.(*ast.CompositeLit)
				if !ok {
					return nil, nil, fmt.Errorf("variable is not a composite literal")
				}
				for _, el := range cl.Elts {
					bl, ok := el.(*ast.BasicLit)
					if !ok || bl.Kind != token.STRING {
						return nil, nil, fmt.Errorf("element is not a string literal")
					}
					s, err := strconv.Unquote(bl.Value)
					if err != nil {
						return nil, nil, err
					}
					words = append(words, s)
				}
			}
		}
	}
	return words, vars, nil
}
