package main

import (
	"crypto/sha256"
	"fmt"
	"strings"
	"sync"

	"aaverif/internal/plan"
	"aaverif/internal/ref"
)

func init() { register("C01", checkC01) }

// failure describes a crash-type outcome of a call, if any.
func failure(r *plan.Res) string {
	switch {
	case r.Died != "":
		return "process died: " + r.Died
	case r.Hang != "":
		return "hang: " + r.Hang
	case r.Panic != "":
		return "panic: " + r.Panic
	}
	return ""
}

func errText(ei *plan.ErrInfo) string {
	if ei == nil {
		return "<nil>"
	}
	return string(unhex(ei.Msg))
}

// describeMismatch explains how a sentence differs from the expected one.
func describeMismatch(got, want string, lang int) string {
	sep := ref.Sep(lang)
	g, w := strings.Split(got, sep), strings.Split(want, sep)
	if len(g) != len(w) {
		return fmt.Sprintf("splitting on the required separator gives %d tokens, expected %d; got %s want %s", len(g), len(w), preview(got), preview(want))
	}
	for i := range g {
		if g[i] != w[i] {
			return fmt.Sprintf("word %d is %s, expected %s", i, preview(g[i]), preview(w[i]))
		}
	}
	return fmt.Sprintf("got %s want %s", preview(got), preview(want))
}

// encOp passes the entropy in a recycled caller-owned buffer for every second
// case (decided by the content, so that it is reproducible).
func encOp(c EntCase) plan.Op {
	return plan.Op{Fn: "enc", L: int64(c.Lang), E: hx(c.Ent), Arena: len(c.Ent) > 0 && c.Ent[len(c.Ent)-1]&1 == 0}
}

func checkC01(e *Env) {
	drv := e.BuildDrv(false)
	var mu sync.Mutex
	var posIdx [5][24][2048]bool
	posIdxCount := 0
	var csSeen [5][256]bool
	csCount := [5]int{}
	langSize := newCounter()
	classes := newCounter()
	dist := newDistinct()
	smp := newSamples(6)

	stats := e.RunStream(StreamOpts{Drv: drv}, func(emit func(*Item)) {
		e.entropyCorpus("C01", func(c EntCase) {
			emit(&Item{Op: encOp(c), Exp: c})
		})
	}, func(it *Item, r *plan.Res) {
		c := it.Exp.(EntCase)
		want := e.Model.Enc(c.Ent, c.Lang)
		if f := failure(r); f != "" {
			e.Violate(&Violation{What: "NewMnemonicByEntropy did not return normally: " + f, Ops: []plan.Op{it.Op}, Expected: hxs(want), Observed: r})
			return
		}
		got := string(unhex(r.Out))
		if r.Err != nil {
			e.Violate(&Violation{What: fmt.Sprintf("NewMnemonicByEntropy(%d bytes, %s) returned error %q", len(c.Ent), ref.Names[c.Lang], errText(r.Err)),
				Ops: []plan.Op{it.Op}, Expected: map[string]string{"out_hex": hxs(want), "out": want, "err": "nil"}, Observed: r})
			return
		}
		if got != want {
			e.Violate(&Violation{What: fmt.Sprintf("NewMnemonicByEntropy(%x, %s) is not the BIP39 sentence: %s", c.Ent, ref.Names[c.Lang], describeMismatch(got, want, c.Lang)),
				Ops: []plan.Op{it.Op}, Expected: map[string]string{"out_hex": hxs(want), "out": want}, Observed: r})
			return
		}
		// coverage, measured from what was actually executed
		idx := ref.Indices(c.Ent)
		h := sha256.Sum256(c.Ent)
		s := sizeIdx(len(c.Ent))
		mu.Lock()
		for p, v := range idx {
			if !posIdx[s][p][v] {
				posIdx[s][p][v] = true
				posIdxCount++
			}
		}
		if !csSeen[s][h[0]] {
			csSeen[s][h[0]] = true
			csCount[s]++
		}
		mu.Unlock()
		langSize.Inc(ref.Names[c.Lang] + "/" + itoa(len(c.Ent)))
		classes.Inc(c.Class)
		dist.Add(string(c.Ent), itoa(c.Lang))
		smp.Add(map[string]any{"entropy": hx(c.Ent), "language": ref.Names[c.Lang], "class": c.Class, "sentence": got})
	})

	// histories: the same entropy under another language, a neighbouring entropy, other
	// functions in between — in one process
	histCalls := e.runHistories(drv, "C01", e.pick(24, 300), 4, func(ops []plan.Op, res []plan.Res) {
		for i := range res {
			op := &ops[i]
			if op.Fn != "enc" || op.L < 0 || op.L >= ref.NLang || !validEntLen(len(op.Entropy())) {
				continue
			}
			if res[i].Panic != "" {
				e.Violate(&Violation{What: fmt.Sprintf("after earlier calls in the same process NewMnemonicByEntropy(%x, %s) did not return normally: %s", op.Entropy(), ref.Names[op.L], oneLine(res[i].Panic, 300)),
					Ops: ops[:i+1], Expected: map[string]string{"out_hex": hxs(e.Model.Enc(op.Entropy(), int(op.L)))}, Observed: res[i], Detail: historyNote})
				return
			}
			if want := e.Model.Enc(op.Entropy(), int(op.L)); string(unhex(res[i].Out)) != want || res[i].Err != nil {
				e.Violate(&Violation{What: fmt.Sprintf("after earlier calls in the same process NewMnemonicByEntropy(%x, %s) is not the BIP39 sentence: %s", op.Entropy(), ref.Names[op.L], describeMismatch(string(unhex(res[i].Out)), want, int(op.L))),
					Ops: ops[:i+1], Expected: map[string]string{"out_hex": hxs(want)}, Observed: res[i], Detail: historyNote})
				return
			}
		}
	})

	// entropies carved out of one caller-owned buffer, encoded one after the other
	slabSentences := e.runSlabs(drv, "C01", e.pick(200, 4000), func(op *plan.Op, j int, want []byte, sentence string) string {
		if exp := e.Model.Enc(want, int(op.L)); sentence != exp {
			return "the sentence is not the BIP39 sentence of the slice as the caller wrote it: " + describeMismatch(sentence, exp, int(op.L))
		}
		return ""
	})

	// the concurrent flavour of this monitor (C12 is the full treatment)
	concCalls := e.concurrentSmoke(drv, "C01", e.smokePool("C01", "enc"), e.pick(8, 32), e.pick(300, 1500), e.smokeEncExact())

	// completeness of the enumerated factors
	possible, firstPositions, firstSeen := 0, 0, 0
	for s, size := range ref.EntSizes {
		n := size * 3 / 4
		possible += n * 2048
		for p := 0; p < n-1; p++ {
			firstPositions += 2048
			for v := 0; v < 2048; v++ {
				if posIdx[s][p][v] {
					firstSeen++
				}
			}
		}
	}
	lastSeen := posIdxCount - firstSeen
	if e.Violations() == 0 {
		if firstSeen != firstPositions {
			fatalInconclusive("C01: only %d of %d (position,index) pairs were executed", firstSeen, firstPositions)
		}
		for s := range csCount {
			if csCount[s] != 256 {
				fatalInconclusive("C01: only %d of 256 checksum bytes seen at width %d", csCount[s], ref.EntSizes[s]/4)
			}
		}
		if len(langSize.Map()) != 50 {
			fatalInconclusive("C01: language x size matrix incomplete")
		}
	}
	e.WriteEvidence("exploration", map[string]any{
		"evaluations":                      stats.Ops,
		"distinct_nontrivial":              dist.Len(),
		"calls_repeated_under_concurrency": concCalls,
		"rule":                             "cases = walking-index entropies (every (position,index) pair of the first n-1 words), boundary bit/byte runs, and seeded random entropies continued until every SHA-256 first-byte value was seen per width (thorough: every index at the last position); a case is the pair (entropy, language); all are non-trivial (each is compared byte-for-byte with the independent bit-array encoder over the golden lists); distinct = distinct (entropy, language) pairs",
		"samples":                          smp.List(),
		"position_index_pairs_seen_first_positions":         firstSeen,
		"position_index_pairs_possible_first":               firstPositions,
		"last_position_indices_seen":                        lastSeen,
		"last_position_indices_possible":                    5 * 2048,
		"checksum_first_bytes_seen_per_width":               csCount,
		"language_size_matrix":                              langSize.Map(),
		"classes":                                           classes.Map(),
		"calls_inside_histories":                            histCalls,
		"sentences_from_entropies_carved_out_of_one_buffer": slabSentences,
		"children":     stats.Children,
		"child_deaths": stats.Deaths,
	}, []string{
		"golden lists in /verif/golden are the canonical BIP39 lists (English digest matches the published one)",
		"crypto/sha256 of the Go standard library",
		"the harness's reference encoder (self-tested against published vectors at start-up)",
	})
}
