package main

import (
	"fmt"
	"math"
	"sort"
	"strings"
	"sync"
	"unicode"

	"aaverif/internal/plan"
	"aaverif/internal/ref"
	"aaverif/internal/rng"
)

func init() { register("C03", checkC03) }

type c03exp struct {
	s     string
	lang  int
	class string
	group int // >= 0: member of a last-word sweep (all 2048 candidates for one prefix)
	cand  int
}

type c03group struct {
	lang, n   int
	prefix    string
	accepted  int
	predicted int
	answered  int
}

// hostileStrings emits the C03 workload. Every string is built by the parent
// from reference-valid sentences.
func (e *Env) hostileStrings(newGroup func(*c03group) int, emit func(c03exp)) {
	m := e.Model
	sentence := func(r *rng.R, lang, size int, kind int) []string {
		ent := r.Bytes(size)
		switch kind {
		case 1: // zero-leading
			z := 1 + r.Intn(size-1)
			for i := 0; i < z; i++ {
				ent[i] = 0
			}
		case 2:
			for i := range ent {
				ent[i] = 0xff
			}
		case 3:
			for i := range ent {
				ent[i] = 0
			}
		}
		return m.Words(ent, lang)
	}
	join := func(t []string) string { return strings.Join(t, " ") }

	// A. last-word sweeps: for a prefix of n-1 list words all 2048 candidates
	P := e.pick(6, 100)
	for lang := 0; lang < ref.NLang; lang++ {
		for _, size := range ref.EntSizes {
			r := rng.New(e.Seed, "C03-sweep-"+itoa(lang)+"-"+itoa(size))
			for p := 0; p < P; p++ {
				w := sentence(r, lang, size, p%4)
				prefix := join(w[:len(w)-1])
				g := newGroup(&c03group{lang: lang, n: len(w), prefix: prefix})
				for cand := 0; cand < 2048; cand++ {
					emit(c03exp{s: prefix + " " + m.List[lang][cand], lang: lang, class: "last-word-sweep", group: g, cand: cand})
				}
			}
		}
	}
	// B. all 2047 substitutions at every position of selected sentences
	S := e.pick(20, 200)
	for k := 0; k < S; k++ {
		lang := k % ref.NLang
		size := ref.EntSizes[(k/ref.NLang+k)%5]
		r := rng.New(e.Seed, "C03-subst-"+itoa(k))
		w := sentence(r, lang, size, (k/5)%4)
		for pos := range w {
			orig := w[pos]
			for v := 0; v < 2048; v++ {
				if m.List[lang][v] == orig {
					continue
				}
				w[pos] = m.List[lang][v]
				emit(c03exp{s: join(w), lang: lang, class: "substitution", group: -1})
			}
			w[pos] = orig
		}
	}
	// C..G on a pool of valid sentences per language x size
	V := e.pick(4, 60)
	fuzzPer := e.pick(500, 10000)
	for lang := 0; lang < ref.NLang; lang++ {
		for si, size := range ref.EntSizes {
			r := rng.New(e.Seed, "C03-misc-"+itoa(lang)+"-"+itoa(size))
			for v := 0; v < V; v++ {
				w := sentence(r, lang, size, v%4)
				n := len(w)
				// C. transpositions
				for i := 0; i+1 < n; i++ {
					t := append([]string(nil), w...)
					t[i], t[i+1] = t[i+1], t[i]
					emit(c03exp{s: join(t), lang: lang, class: "adjacent-transposition", group: -1})
				}
				for k := 0; k < 10; k++ {
					t := append([]string(nil), w...)
					i, j := r.Intn(n), r.Intn(n)
					t[i], t[j] = t[j], t[i]
					emit(c03exp{s: join(t), lang: lang, class: "random-transposition", group: -1})
				}
				rev := make([]string, n)
				for i := range w {
					rev[n-1-i] = w[i]
				}
				emit(c03exp{s: join(rev), lang: lang, class: "reversed", group: -1})
				rot := append(append([]string(nil), w[1:]...), w[0])
				emit(c03exp{s: join(rot), lang: lang, class: "rotated", group: -1})
				// D. word-count changes (counts 0..30)
				for c := 0; c <= 30; c++ {
					if c == n {
						continue
					}
					var t []string
					if c < n {
						t = w[:c]
					} else {
						t = append([]string(nil), w...)
						for len(t) < c {
							t = append(t, w[r.Intn(n)])
						}
					}
					emit(c03exp{s: join(t), lang: lang, class: "count-change-tail", group: -1})
					if c < n && c > 0 {
						emit(c03exp{s: join(w[n-c:]), lang: lang, class: "count-change-head", group: -1})
					}
				}
				// a valid shorter sentence followed by unknown tokens up to the next valid count
				for _, k := range []int{12, 15, 18, 21} {
					if k >= n {
						break
					}
					// (w[:k] is generally not valid; build a valid k-word sentence instead)
					short := sentence(r, lang, ref.EntSizes[(k-12)/3], 0)
					t := append(append([]string(nil), short...), "qzx", "qzy", "qzz")
					emit(c03exp{s: join(t), lang: lang, class: "valid-sentence-plus-three-unknown-tokens", group: -1})
					t2 := append(append([]string(nil), short...), w[0], w[1], w[2])
					emit(c03exp{s: join(t2), lang: lang, class: "valid-sentence-plus-three-list-words", group: -1})
				}
				dup := append(append([]string(nil), w...), w...)
				emit(c03exp{s: join(dup), lang: lang, class: "doubled-sentence", group: -1})
				// E. words of other lists
				for other := 0; other < ref.NLang; other++ {
					if other == lang {
						continue
					}
					emit(c03exp{s: join(w), lang: other, class: "whole-sentence-other-language", group: -1})
					t := append([]string(nil), w...)
					pos := r.Intn(n)
					idx := m.Index[lang][w[pos]]
					t[pos] = m.List[other][idx]
					emit(c03exp{s: join(t), lang: lang, class: "one-word-from-other-list", group: -1})
				}
				// F. case, affixes, white space
				for _, pos := range []int{0, r.Intn(n), n - 1} {
					t := append([]string(nil), w...)
					t[pos] = strings.ToUpper(w[pos])
					emit(c03exp{s: join(t), lang: lang, class: "upper-case-word", group: -1})
					t[pos] = strings.Title(w[pos])
					emit(c03exp{s: join(t), lang: lang, class: "title-case-word", group: -1})
					t[pos] = w[pos] + "s"
					emit(c03exp{s: join(t), lang: lang, class: "suffix", group: -1})
					t[pos] = "x" + w[pos]
					emit(c03exp{s: join(t), lang: lang, class: "prefix", group: -1})
					rs := []rune(w[pos])
					t[pos] = string(rs[:len(rs)-1])
					emit(c03exp{s: join(t), lang: lang, class: "truncated-word", group: -1})
					t[pos] = w[pos] + "\x00"
					emit(c03exp{s: join(t), lang: lang, class: "nul-affix", group: -1})
					t[pos] = ""
					emit(c03exp{s: join(t), lang: lang, class: "empty-token", group: -1})
				}
				// tolerant-lookup mutants: unique prefixes, punctuation, near misses
				cut := func(x string, k int) string {
					rs := []rune(x)
					if len(rs) > k {
						rs = rs[:k]
					}
					return string(rs)
				}
				t4 := make([]string, n)
				for i := range w {
					t4[i] = cut(w[i], 4)
				}
				emit(c03exp{s: join(t4), lang: lang, class: "all-words-cut-to-4-letters", group: -1})
				for _, pos := range []int{0, r.Intn(n), n - 1} {
					t := append([]string(nil), w...)
					t[pos] = cut(w[pos], 4)
					emit(c03exp{s: join(t), lang: lang, class: "one-word-cut-to-4-letters", group: -1})
					t[pos] = cut(w[pos], 3)
					emit(c03exp{s: join(t), lang: lang, class: "one-word-cut-to-3-letters", group: -1})
					for _, pc := range []string{",", ".", ";", "-", "'", "\"", "!", "\u200b", "\u00ad", "\ufeff", "1"} {
						t[pos] = w[pos] + pc
						emit(c03exp{s: join(t), lang: lang, class: "punctuation-or-invisible-suffix", group: -1})
						t[pos] = pc + w[pos]
						emit(c03exp{s: join(t), lang: lang, class: "punctuation-or-invisible-prefix", group: -1})
					}
					t[pos] = w[pos] + w[pos]
					emit(c03exp{s: join(t), lang: lang, class: "doubled-word-token", group: -1})
					t[pos] = strings.ToLower(strings.ToUpper(w[pos])) + "\u0301"
					emit(c03exp{s: join(t), lang: lang, class: "extra-combining-mark", group: -1})
				}
				base := join(w)
				emit(c03exp{s: strings.ToUpper(base), lang: lang, class: "upper-case-sentence", group: -1})
				for _, ws := range []string{" ", "\t", "\n", "\u3000", "\u00a0", "\u2003", "\r\n", "  "} {
					emit(c03exp{s: ws + base, lang: lang, class: "leading-white-space", group: -1})
					emit(c03exp{s: base + ws, lang: lang, class: "trailing-white-space", group: -1})
					emit(c03exp{s: strings.Join(w, ws), lang: lang, class: "other-separator", group: -1})
					emit(c03exp{s: strings.Replace(base, " ", ws, 1), lang: lang, class: "one-other-separator", group: -1})
				}
				emit(c03exp{s: strings.Join(w, ""), lang: lang, class: "no-separator", group: -1})
				emit(c03exp{s: strings.Join(w, ","), lang: lang, class: "comma-separator", group: -1})
				// wrong checksum with valid count (flip within the last word's checksum bits)
				li := m.Index[lang][w[n-1]]
				for b := 0; b < n/3; b++ {
					t := append([]string(nil), w...)
					t[n-1] = m.List[lang][li^(1<<uint(b))]
					emit(c03exp{s: join(t), lang: lang, class: "checksum-bit-flip", group: -1})
				}
				// G. byte-level fuzz
				for k := 0; k < fuzzPer/V; k++ {
					b := []byte(base)
					for f := 0; f <= r.Intn(3); f++ {
						switch r.Intn(5) {
						case 0:
							b[r.Intn(len(b))] ^= 1 << uint(r.Intn(8))
						case 1:
							i := r.Intn(len(b))
							b = append(b[:i], b[i+1:]...)
						case 2:
							i := r.Intn(len(b) + 1)
							b = append(b[:i], append([]byte{byte(r.Intn(256))}, b[i:]...)...)
						case 3:
							i := r.Intn(len(b))
							b[i] = []byte{0xff, 0xc0, 0x80, 0xed, 0xf8, 0x00, 0x20}[r.Intn(7)]
						case 4:
							i, j := r.Intn(len(b)), r.Intn(len(b))
							b[i], b[j] = b[j], b[i]
						}
					}
					emit(c03exp{s: string(b), lang: lang, class: "byte-fuzz", group: -1})
				}
			}
			_ = si
		}
	}
	// every list word of every language, damaged by an affix, inside an otherwise valid
	// sentence (a tolerant lookup — prefix match, trimming, packing — would accept it)
	for lang := 0; lang < ref.NLang; lang++ {
		r := rng.New(e.Seed, "C03-affix-"+itoa(lang))
		for i := 0; i < 2048; i++ {
			size := ref.EntSizes[i%5]
			n := size * 3 / 4
			first := make([]int, n-1)
			for k := range first {
				first[k] = r.Intn(2048)
			}
			pos := i % (n - 1)
			first[pos] = i
			idx := ref.Indices(entropyFromIndices(size, first, r.Intn(1<<uint(11-size/4))))
			w := make([]string, n)
			for k, v := range idx {
				w[k] = m.List[lang][v]
			}
			orig := w[pos]
			for _, d := range []string{orig + "s", orig + "\x00", orig + "xyz", "z" + orig, orig + orig} {
				w[pos] = d
				emit(c03exp{s: join(w), lang: lang, class: "every-word-with-affix", group: -1})
			}
		}
	}
	// a valid sentence containing list word #0 at position p, with that word replaced by the
	// empty token (leading, doubled or trailing separator): a validator that reads a missing
	// word as index 0 would accept it
	for lang := 0; lang < ref.NLang; lang++ {
		r := rng.New(e.Seed, "C03-empty0-"+itoa(lang))
		for _, size := range ref.EntSizes {
			n := size * 3 / 4
			for p := 0; p < n; p++ {
				for rep := 0; rep < 3; rep++ {
					var idx []int
					if p < n-1 {
						first := make([]int, n-1)
						for k := range first {
							first[k] = r.Intn(2048)
						}
						first[p] = 0
						idx = ref.Indices(entropyFromIndices(size, first, r.Intn(1<<uint(11-size/4))))
					} else {
						// find an entropy whose LAST word is index 0
						for try := 0; try < 20000; try++ {
							cand := ref.Indices(r.Bytes(size))
							if cand[n-1] == 0 {
								idx = cand
								break
							}
						}
						if idx == nil {
							continue
						}
					}
					w := make([]string, n)
					for k, v := range idx {
						w[k] = m.List[lang][v]
					}
					for _, sep := range []string{" ", "\u3000"} {
						t := append([]string(nil), w...)
						t[p] = ""
						emit(c03exp{s: strings.Join(t, sep), lang: lang, class: "word-0-replaced-by-empty-token", group: -1})
					}
				}
			}
		}
	}
	// sentences of n-1, n and n+1 words in which some separators are other code points that
	// NFKD turns into U+0020 (the raw and the normalised token counts differ)
	spaceLike := []string{"\u00a0", "\u2000", "\u2002", "\u2003", "\u2007", "\u2009", "\u200a", "\u202f", "\u205f", "\u3000"}
	for lang := 0; lang < ref.NLang; lang++ {
		r := rng.New(e.Seed, "C03-mixedsep-"+itoa(lang))
		for _, size := range ref.EntSizes {
			for rep := 0; rep < e.pick(12, 120); rep++ {
				w := sentence(r, lang, size, 0)
				n := len(w)
				var t []string
				switch rep % 3 {
				case 0:
					t = w
				case 1:
					t = append(append([]string(nil), w...), w[r.Intn(n)])
				case 2:
					t = w[:n-1]
				}
				var sb strings.Builder
				for k, x := range t {
					if k > 0 {
						if r.Intn(4) == 0 {
							sb.WriteString(spaceLike[r.Intn(len(spaceLike))])
						} else {
							sb.WriteString(" ")
						}
					}
					sb.WriteString(x)
				}
				emit(c03exp{s: sb.String(), lang: lang, class: "mixed-space-like-separators", group: -1})
			}
		}
	}
	// a valid sentence next to one huge token (sizes around the buffer sizes of the standard
	// library's scanners and readers): the extra token makes the count wrong wherever it stands
	{
		r := rng.New(e.Seed, "C03-huge")
		sizes := []int{4095, 4096, 4097, 65535, 65536, 65537, 70000}
		for lang := 0; lang < ref.NLang; lang++ {
			ss := sizes
			if lang%5 == 0 {
				ss = append(append([]int(nil), sizes...), 1<<20)
				if e.Thorough() {
					ss = append(ss, 1<<24)
				}
			}
			for si, size := range ss {
				w := sentence(r, lang, ref.EntSizes[(si+lang)%5], 0)
				unit := []string{"a", "\u3042", "q\u0301", "\uff41"}[(si+lang)%4]
				huge := strings.Repeat(unit, size/len(unit)+1)[:size/len(unit)*len(unit)]
				valid := strings.Join(w, " ")
				k := 1 + r.Intn(len(w)-1)
				for _, x := range []string{
					valid + " " + huge,
					valid + " " + huge + " " + w[0],
					valid + " " + huge + "\xff tail",
					huge + " " + valid,
					strings.Join(w[:k], " ") + " " + huge + " " + strings.Join(w[k:], " "),
				} {
					emit(c03exp{s: x, lang: lang, class: "valid-sentence-next-to-a-huge-token", group: -1})
				}
			}
		}
	}
	// a separator that brings a combining mark with it: every code point whose NFKD form is a
	// space followed by marks (U+00A8, U+00B4, U+309B, ...) in place of a separator or glued in
	// front of a word, and a plain separator followed by a stray mark. The token after it starts
	// with a mark and is no list word.
	{
		r := rng.New(e.Seed, "C03-spacemark")
		g := e.Gen()
		for k, cp := range g.spaceMark {
			lang := k % ref.NLang
			w := sentence(r, lang, ref.EntSizes[k%5], 0)
			pos := 1 + r.Intn(len(w)-1)
			glued := strings.Join(w[:pos], " ") + string(cp) + strings.Join(w[pos:], " ")
			emit(c03exp{s: glued, lang: lang, class: "space-plus-mark-code-point-as-separator", group: -1})
			before := strings.Join(w[:pos], " ") + " " + string(cp) + strings.Join(w[pos:], " ")
			emit(c03exp{s: before, lang: lang, class: "space-plus-mark-code-point-before-a-word", group: -1})
			emit(c03exp{s: strings.Join(w, " ") + string(cp), lang: lang, class: "space-plus-mark-code-point-at-the-end", group: -1})
		}
		for lang := 0; lang < ref.NLang; lang++ {
			for k, m := range []string{"\u0301", "\u0308", "\u3099", "\u0323\u0301", "\u05bc"} {
				w := sentence(r, lang, ref.EntSizes[k], 0)
				pos := 1 + r.Intn(len(w)-1)
				for _, sep := range []string{" ", "\u3000", "\u00a0"} {
					s := strings.Join(w[:pos], " ") + sep + m + strings.Join(w[pos:], " ")
					emit(c03exp{s: s, lang: lang, class: "stray-mark-after-a-separator", group: -1})
				}
			}
		}
	}
	// word counts congruent to an acceptable count modulo 2^8 and 2^16, all list words: with a
	// count taken modulo a narrow integer some of them pass the checksum by chance
	{
		r := rng.New(e.Seed, "C03-bigcount")
		for lang := 0; lang < ref.NLang; lang++ {
			for _, n := range []int{268, 271, 274, 277, 280, 524, 65548} {
				if n > 1000 && lang%5 != 0 {
					continue
				}
				for rep := 0; rep < map[bool]int{true: 40, false: 2}[n == 268]; rep++ {
					t := make([]string, n)
					for i := range t {
						t[i] = e.Model.List[lang][r.Intn(2048)]
					}
					emit(c03exp{s: strings.Join(t, " "), lang: lang, class: "count-congruent-to-an-acceptable-count", group: -1})
				}
			}
		}
	}
	// a valid 24-word sentence respelled so that its RAW byte length is exactly L, for every L the
	// respelling can reach (ASCII letters as full-width (+2 bytes) or mathematical bold (+3 bytes)
	// letters, separators as U+3000 (+2)), followed by one more word, by junk glued to the last
	// word, or by a second sentence: a validator that cuts its input at some byte length before
	// normalising accepts one of them when L is that length
	{
		r := rng.New(e.Seed, "C03-exact-length")
		langs := []int{4, 7, 2} // Italian, Spanish, English
		if e.Thorough() {
			langs = []int{2, 3, 4, 7, 8, 9}
		}
		for _, lang := range langs {
			// a sentence of the longest words of the list: 23 drawn from the 48 words with the
			// most ASCII letters, and the longest of the final words that make the checksum right
			asciiLetters := func(t string) int {
				n := 0
				for _, x := range t {
					if x >= 'a' && x <= 'z' {
						n++
					}
				}
				return n
			}
			byLen := append([]string(nil), m.List[lang]...)
			sort.SliceStable(byLen, func(i, j int) bool { return asciiLetters(byLen[i]) > asciiLetters(byLen[j]) })
			w := make([]string, 24)
			for i := 0; i < 23; i++ {
				w[i] = byLen[r.Intn(48)]
			}
			for _, cand := range byLen {
				w[23] = cand
				if _, st, _ := m.Dec(w, lang); st == ref.OK {
					break
				}
			}
			best := asciiLetters(strings.Join(w, ""))
			plain := strings.Join(w, " ")
			letters, seps := best, len(w)-1
			for delta := 0; delta <= 3*letters+2*seps; delta++ {
				y := delta / 3
				if y > letters {
					y = letters
				}
				x := -1
				for ; y >= 0; y-- {
					if rest := delta - 3*y; rest%2 == 0 && rest/2 <= letters-y+seps {
						x = rest / 2
						break
					}
				}
				if x < 0 {
					continue
				}
				var sb strings.Builder
				bold, wide := y, x
				for _, c := range plain {
					switch {
					case c >= 'a' && c <= 'z' && bold > 0:
						sb.WriteRune(0x1D41A + (c - 'a'))
						bold--
					case c >= 'a' && c <= 'z' && wide > 0:
						sb.WriteRune(0xFF41 + (c - 'a'))
						wide--
					default:
						sb.WriteRune(c)
					}
				}
				sp := sb.String()
				if wide > 0 { // the remaining +2 steps go to the separators, from the end
					parts := strings.Split(sp, " ")
					sp = parts[0]
					for i := 1; i < len(parts); i++ {
						if len(parts)-i <= wide {
							sp += "\u3000" + parts[i]
						} else {
							sp += " " + parts[i]
						}
					}
				}
				if len(sp) != len(plain)+delta {
					continue
				}
				tail := m.List[lang][r.Intn(2048)]
				emit(c03exp{s: sp + " " + tail, lang: lang, class: "exact-raw-length-then-one-more-word", group: -1})
				emit(c03exp{s: sp + "zz" + tail, lang: lang, class: "exact-raw-length-then-glued-junk", group: -1})
				if delta%4 == 0 {
					emit(c03exp{s: sp + "\u3000" + plain, lang: lang, class: "exact-raw-length-then-second-sentence", group: -1})
				}
			}
		}
	}
	// fixed oddities, every language
	for lang := 0; lang < ref.NLang; lang++ {
		for _, s := range []string{"", " ", "           ", strings.Repeat(" ", 23), "\x00", "\xff\xfe", strings.Repeat("a ", 12), strings.Repeat("abandon ", 12)} {
			emit(c03exp{s: s, lang: lang, class: "oddity", group: -1})
		}
	}
}

func checkC03(e *Env) {
	drv := e.BuildDrv(false)
	var groups []*c03group
	var gmu sync.Mutex
	classes := newCounter()
	acceptedByClass := newCounter()
	refRejected := newDistinct()
	refAccepted := newDistinct()
	smp := newSamples(8)
	notJudged := newCounter()

	stats := e.RunStream(StreamOpts{Drv: drv}, func(emit func(*Item)) {
		e.hostileStrings(func(g *c03group) int {
			gmu.Lock()
			defer gmu.Unlock()
			groups = append(groups, g)
			return len(groups) - 1
		}, func(x c03exp) {
			emit(&Item{Op: plan.Op{Fn: "chkval", L: int64(x.lang), S: hxs(x.s)}, Exp: x})
		})
	}, func(it *Item, r *plan.Res) {
		x := it.Exp.(c03exp)
		classes.Inc(x.class)
		if f := failure(r); f != "" {
			// a crash is not an acceptance; C14 judges crashes
			notJudged.Inc(x.class)
			return
		}
		accepted := r.Err == nil
		if r.B == nil || *r.B != accepted {
			e.Violate(&Violation{What: fmt.Sprintf("IsMnemonicValid=%v but CheckMnemonic=%q for %s under %s", r.B != nil && *r.B, errText(r.Err), preview(x.s), ref.Names[x.lang]),
				Ops: []plan.Op{it.Op}, Expected: "IsMnemonicValid == (CheckMnemonic == nil)", Observed: r})
			return
		}
		st, toks := e.RefValidate(x.s, x.lang)
		if st == ref.OK {
			refAccepted.Add(x.s, itoa(x.lang))
		} else {
			refRejected.Add(x.s, itoa(x.lang))
		}
		if accepted {
			acceptedByClass.Inc(x.class)
			if st != ref.OK {
				why := st.String()
				if st == ref.BadCount {
					why = fmt.Sprintf("%d white-space separated tokens", len(toks))
				}
				e.Violate(&Violation{What: fmt.Sprintf("CheckMnemonic accepted a string that is not a valid %s mnemonic (%s; class %s): %s", ref.Names[x.lang], why, x.class, preview(x.s)),
					Ops: []plan.Op{it.Op}, Expected: map[string]any{"reference_verdict": st.String(), "err": "non-nil"}, Observed: r})
				return
			}
		}
		if x.group >= 0 {
			gmu.Lock()
			g := groups[x.group]
			g.answered++
			if accepted {
				g.accepted++
			}
			if st == ref.OK {
				g.predicted++
			}
			gmu.Unlock()
			if st == ref.OK && !accepted {
				e.Violate(&Violation{What: fmt.Sprintf("for prefix %s (%s, %d words) the final word %s (index %d) completes a valid sentence but is rejected with %q: fewer than 2^(11-n/3) final words are accepted",
					preview(g.prefix), ref.Names[x.lang], g.n, preview(e.Model.List[x.lang][x.cand]), x.cand, errText(r.Err)),
					Ops: []plan.Op{it.Op}, Expected: "accepted", Observed: r})
				return
			}
		}
		if x.class != "last-word-sweep" && x.class != "substitution" {
			smp.Add(map[string]any{"class": x.class, "language": ref.Names[x.lang], "input": preview(x.s), "reference": st.String(), "accepted": accepted})
		}
	})

	// values of Language outside the ten supported ones have no list, so no token belongs to
	// "that language's list" and nothing is a well-formed mnemonic under them (the property's
	// mechanism: unsupported languages have no map). Valid sentences of every list are validated
	// under the values next to the declared range, under values that alias a supported one after
	// truncation to 8, 16 or 32 bits, and under the extremes of int.
	var unsup []int64
	for v := int64(-12); v < 0; v++ {
		unsup = append(unsup, v)
	}
	for v := int64(ref.NLang); v <= 32; v++ {
		unsup = append(unsup, v)
	}
	for k := int64(0); k < ref.NLang; k++ {
		unsup = append(unsup, 1<<8+k, 1<<16+k, 1<<32+k, -(1<<32)+k, math.MinInt64+k, math.MaxInt64-k)
	}
	unsup = append(unsup, 99, 100, 127, 128, 255, 1000, 10000, math.MaxInt32, math.MinInt32, 1<<62)
	unsupCalls, unsupAccepted := 0, 0
	e.RunStream(StreamOpts{Drv: drv}, func(emit func(*Item)) {
		r := rng.New(e.Seed, "C03-unsupported")
		for lang := 0; lang < ref.NLang; lang++ {
			for vi, v := range unsup {
				w := e.Model.Words(r.Bytes(ref.EntSizes[(lang+vi)%5]), lang)
				emit(&Item{Op: plan.Op{Fn: "chkval", L: v, S: hxs(strings.Join(w, " "))}, Exp: lang})
			}
		}
	}, func(it *Item, r *plan.Res) {
		if failure(r) != "" {
			notJudged.Inc("unsupported-language-value")
			return
		}
		gmu.Lock()
		unsupCalls++
		gmu.Unlock()
		if r.Err == nil || (r.B != nil && *r.B) {
			gmu.Lock()
			unsupAccepted++
			gmu.Unlock()
			e.Violate(&Violation{What: fmt.Sprintf("Language(%d) is not a supported language and has no list, yet CheckMnemonic=%q IsMnemonicValid=%v for a valid %s sentence: %s", it.Op.L, errText(r.Err), r.B != nil && *r.B, ref.Names[it.Exp.(int)], preview(it.Op.Str())),
				Ops: []plan.Op{it.Op}, Expected: "rejected: no token belongs to the list of an unsupported language", Observed: r})
		}
	})
	classes.Add("valid-sentence-under-unsupported-language-value", unsupCalls)

	// histories: the same hostile queries right after the valid sentence they were derived
	// from was accepted in the same process (a memo of "the last valid sentence" would
	// answer some of them from memory)
	nh := e.pick(48, 600)
	histOps := newCounter()
	parallel(nh, e.Workers, func(h int) {
		g := &seqGen{e: e, r: rng.New(e.Seed, "C03-hist-"+itoa(h)), bufs: map[int][]byte{}}
		g.memoHunt(5)
		res, died := e.RunProc(drv, g.ops, nil, 0)
		if died != "" {
			notJudged.Inc("history-process-died")
			return
		}
		for i := range res {
			op, r := &g.ops[i], &res[i]
			if (op.Fn != "chk" && op.Fn != "val") || r.Panic != "" || !supportedLang(op.L) {
				continue // the property speaks about supported languages
			}
			histOps.Inc(op.Fn)
			accepted := (op.Fn == "chk" && r.Err == nil) || (op.Fn == "val" && r.B != nil && *r.B)
			if !accepted {
				continue
			}
			if st, _ := e.RefValidate(op.Str(), int(op.L)); st != ref.OK {
				e.Violate(&Violation{What: fmt.Sprintf("after earlier calls in the same process, %s accepted a string that is not a valid %s mnemonic (%s): %s", fnName(op.Fn), ref.Names[op.L], st, preview(op.Str())),
					Ops: g.ops[:i+1], Expected: "rejected", Observed: r, Detail: "the failing call is the last of ops; the preceding ones are its history"})
				return
			}
		}
	})

	// the concurrent flavour of this monitor (C12 is the full treatment)
	// many distinct sentences in spellings that need normalising (valid and wrong-checksum ones
	// alternating), then the same ones again and once more in reverse: a bounded cache of
	// normal forms or verdicts must not answer from another sentence's entry
	wrapCalls := 0
	wrapSizes := []int{40, 150, 600, e.pick(2500, 12000)}
	parallel(len(wrapSizes)*2, e.Workers, func(k int) {
		g := &seqGen{e: e, r: rng.New(e.Seed, "C03-wrap-"+itoa(k)), bufs: map[int][]byte{}}
		g.cacheWrap(k%2, wrapSizes[k/2])
		res, died := e.RunProc(drv, g.ops, nil, 0)
		if died != "" || len(res) != len(g.ops) {
			return
		}
		for i := range res {
			op, r := &g.ops[i], &res[i]
			if r.Panic != "" || !acceptedBy(op, r) {
				continue
			}
			if st, _ := e.RefValidate(op.Str(), int(op.L)); st != ref.OK {
				e.Violate(&Violation{What: fmt.Sprintf("after %d distinct validations in the same process, %s accepted a string that is not a valid %s mnemonic (%s): %s", wrapSizes[k/2], fnName(op.Fn), ref.Names[op.L], st, preview(op.Str())),
					Ops: g.ops[:i+1], Expected: "rejected", Observed: r, Detail: "the failing call is the last of ops; the preceding ones are its history"})
				return
			}
		}
		gmu.Lock()
		wrapCalls += len(res)
		gmu.Unlock()
	})
	notJudged.Add("calls_in_repeat_after_many_distinct_sentences_histories", wrapCalls)
	// identity is not equality: an ACCEPTED sentence becomes garbage and a wrong-checksum sentence
	// of the same byte length takes over its address
	reusePairs, reuseHits := e.addressReuse(drv, "C03", e.pick(4, 24), 60, func(r *rng.R, k int) (plan.Op, plan.Op, bool) {
		lang := r.Intn(ref.NLang)
		w := e.Model.Words(r.Bytes(ref.EntSizes[r.Intn(5)]), lang)
		bad := append([]string(nil), w...)
		i, j := r.Intn(len(w)), r.Intn(len(w))
		bad[i], bad[j] = bad[j], bad[i]
		if _, st, _ := e.Model.Dec(bad, lang); st == ref.OK {
			return plan.Op{}, plan.Op{}, false
		}
		return plan.Op{Fn: "chk", L: int64(lang), S: hxs(strings.Join(w, " "))}, plan.Op{Fn: []string{"chk", "val"}[k%2], L: int64(lang), S: hxs(strings.Join(bad, " "))}, true
	}, func(ops []plan.Op, i int, r *plan.Res, reused bool) {
		if acceptedBy(&ops[i], r) {
			e.Violate(&Violation{What: fmt.Sprintf("%s accepted a wrong-checksum %s sentence that was validated right after an accepted sentence of the same byte length whose memory it took over (address reused: %v): %s", fnName(ops[i].Fn), ref.Names[ops[i].L], reused, preview(ops[i].Str())),
				Ops: ops[:i+1], ChildEnv: []string{"GOMAXPROCS=1"}, Expected: "rejected", Observed: r, Detail: "the failing call is the last of ops; the preceding ones are its history"})
		}
	})
	notJudged.Add("pairs_validated_at_a_reused_address(of "+itoa(reusePairs)+")", reuseHits)
	concCalls := e.concurrentSmoke(drv, "C03", e.smokePool("C03", "chk"), e.pick(8, 32), e.pick(300, 1500), e.smokeAcceptedValid())

	// accept-set sizes per (language, word count)
	sizes := newCounter()
	badGroups := 0
	for _, g := range groups {
		want := 1 << uint(11-g.n/3)
		if g.answered == 2048 {
			sizes.Inc(fmt.Sprintf("%s/%d words: accepted %d of 2048 (expected %d)", ref.Names[g.lang], g.n, g.accepted, want))
			if g.predicted != want {
				fatalInconclusive("C03: reference predicts %d accepted final words for a %d-word prefix", g.predicted, g.n)
			}
			if g.accepted != want {
				badGroups++
				e.Violate(&Violation{What: fmt.Sprintf("prefix %s (%s, %d words): %d final words accepted, expected exactly %d", preview(g.prefix), ref.Names[g.lang], g.n, g.accepted, want),
					Detail: g.prefix})
			}
		}
	}
	if e.Violations() == 0 && refRejected.Len() == 0 {
		fatalInconclusive("C03: no reference-invalid string was explored")
	}
	e.WriteEvidence("exploration", map[string]any{
		"evaluations":                        stats.Ops,
		"distinct_nontrivial":                refRejected.Len(),
		"calls_repeated_under_concurrency":   concCalls,
		"rule":                               "cases are strings built from reference-valid sentences: all 2048 final words for fixed prefixes (random, zero-leading, all-ones, all-zero), all 2047 substitutions at every position, transpositions, word-count changes 0..30, sentences and words of the other nine lists, valid sentences of every list under unsupported Language values (next to the declared range, aliases of supported values after truncation to 8/16/32 bits, extremes of int), case/affix/white-space damage, a valid 24-word sentence respelled to every reachable raw byte length (full-width and mathematical-bold letters, U+3000) followed by one more word, glued junk or a second sentence, checksum-bit flips and seeded byte fuzz incl. invalid UTF-8; each is sent to CheckMnemonic and IsMnemonicValid; further, histories in one process (a valid sentence accepted, then the same string under other languages, in other spellings, with one word changed or appended); non-trivial = the independent reference validator (CPython NFKD, split on white space, golden lists, SHA-256) rejects the string, so acceptance would be a violation; distinct by (string, language)",
		"samples":                            smp.List(),
		"validations_by_class":               classes.Map(),
		"accepted_by_class":                  acceptedByClass.Map(),
		"distinct_reference_valid_strings":   refAccepted.Len(),
		"distinct_reference_invalid_strings": refRejected.Len(),
		"sweep_groups":                       len(groups),
		"sweep_groups_with_wrong_size":       badGroups,
		"accept_set_sizes":                   sizes.Map(),
		"crashes_not_judged_here":            notJudged.Map(),
		"python_normalisations":              e.Py().Calls,
		"children":                           stats.Children,
	}, []string{
		"CPython unicodedata NFKD (Unicode 14) as independent normaliser; strings that are not valid UTF-8 have no valid NFKD form",
		"golden lists are the canonical lists; crypto/sha256",
		"only the direction 'accepted => reference-valid' is asserted for arbitrary strings; 'reference-valid => accepted' is asserted only inside last-word sweeps (well-formed, single U+0020 separators), where the property fixes the number of accepted final words",
	})
}

var _ = unicode.IsSpace
