package main

import (
	"fmt"
	"sort"
	"strings"
	"sync"

	"aaverif/internal/plan"
	"aaverif/internal/ref"
	"aaverif/internal/rng"
)

func init() { register("C11", checkC11) }

type c11exp struct {
	grp  *c11group
	role int // -1 base, otherwise variant number
}

type c11variant struct {
	m, p string
	form string
}

type c11group struct {
	lang     int
	kind     string
	bm, bp   string
	idx      []int
	variants []c11variant
	// state
	baseSeed string
	pending  []c11pend
}

type c11pend struct {
	role int
	seed string
	op   plan.Op
}

func checkC11(e *Env) {
	drv := e.BuildDrv(false)
	tab := e.Spellings()
	u := e.Uni()
	g := e.Gen()
	var mu sync.Mutex
	covered := map[string]map[int]bool{}
	pairs := newCounter()
	skipped := newCounter()
	nontrivial := newDistinct()
	smp := newSamples(8)
	differ := newCounter()
	refChecked := newCounter()

	compare := func(grp *c11group, p c11pend) {
		v := grp.variants[p.role]
		pairs.Inc(grp.kind)
		if v.m != grp.bm || v.p != grp.bp {
			nontrivial.Add(grp.bm, grp.bp, v.m, v.p)
		}
		switch {
		case v.m != grp.bm && v.p != grp.bp:
			differ.Inc("both-differ")
		case v.m != grp.bm:
			differ.Inc("mnemonic-differs")
		case v.p != grp.bp:
			differ.Inc("passphrase-differs")
		default:
			differ.Inc("identical-spelling")
		}
		if p.seed != grp.baseSeed {
			e.Violate(&Violation{
				What: fmt.Sprintf("MnemonicToSeed differs for two (mnemonic, passphrase) pairs with equal NFKD forms (%s, form %s): (%s, %s) -> %s but (%s, %s) -> %s",
					grp.kind, v.form, preview(grp.bm), preview(grp.bp), grp.baseSeed, preview(v.m), preview(v.p), p.seed),
				Ops: []plan.Op{{Fn: "seed", S: hxs(grp.bm), P: hxs(grp.bp)}, p.op}, Expected: map[string]string{"out_hex": grp.baseSeed}, Observed: p.seed})
			return
		}
		if grp.idx != nil && v.form != "mixed" {
			key := ref.Names[grp.lang] + "/" + v.form
			mu.Lock()
			if covered[key] == nil {
				covered[key] = map[int]bool{}
			}
			for _, i := range grp.idx {
				if tab.form[grp.lang][v.form][i] != e.Model.List[grp.lang][i] {
					covered[key][i] = true
				}
			}
			mu.Unlock()
		}
		if v.m != grp.bm || v.p != grp.bp {
			smp.Add(map[string]any{"kind": grp.kind, "form": v.form, "base": []string{preview(grp.bm), preview(grp.bp)}, "variant": []string{preview(v.m), preview(v.p)}, "seed": p.seed})
		}
	}

	// build groups ------------------------------------------------------------
	gen := func(emitGroup func(*c11group)) {
		// every list word in every form inside a sentence; 24-word sentences in
		// quick (23 target words each), every size in thorough
		// all five sizes (rotated in quick, every word at every size in thorough): short
		// sentences sit near the 128-byte HMAC block, where raw and NFKD lengths can differ in side
		sizes := []int{16, 20, 24, 28, 32}
		r := rng.New(e.Seed, "C11-pass")
		e.spellCorpus("C11", sizes, e.Thorough(), false, 0, func(sg *spellGroup) {
			grp := &c11group{lang: sg.lang, kind: "sentence", bm: sg.base, bp: "", idx: sg.idx}
			if r.Intn(2) == 0 {
				grp.bp = "TREZOR"
			}
			for _, v := range sg.variants {
				// quick: one separator per form, alternating; Japanese always both
				if !e.Thorough() && sg.lang != ref.Japanese && v.sep != " " && v.form != "NFC" {
					continue
				}
				grp.variants = append(grp.variants, c11variant{m: v.s, p: grp.bp, form: v.form})
			}
			emitGroup(grp)
		})
		// every decomposing code point and every combining mark once (16 per string), as
		// passphrase and as free-form mnemonic, against its NFKD/NFC/NFD spellings
		{
			py := e.Py()
			sweep := append(append([]rune(nil), g.decomp...), g.marks...)
			packed := g.Packed(sweep, 16, 'x')
			forms := map[string][]string{}
			for _, f := range []string{"NFC", "NFD", "NFKC", "NFKD"} {
				forms[f], _ = py.Normalize(f, packed)
			}
			for i, s := range packed {
				gp := &c11group{lang: -1, kind: "code-point-sweep-passphrase", bm: "legal winner thank year wave sausage worth useful legal winner thank yellow", bp: s}
				gm := &c11group{lang: -1, kind: "code-point-sweep-mnemonic", bm: s, bp: "pw"}
				for _, f := range []string{"NFC", "NFD", "NFKC", "NFKD"} {
					gp.variants = append(gp.variants, c11variant{m: gp.bm, p: forms[f][i], form: f})
					if f == "NFKD" || f == "NFC" {
						gm.variants = append(gm.variants, c11variant{m: forms[f][i], p: "pw", form: f})
					}
				}
				emitGroup(gp)
				emitGroup(gm)
			}
			// runs of the code points whose NFKD form is longest relative to their own length
			type exp struct {
				cp    rune
				ratio int
			}
			var heavy []exp
			for _, cp := range g.decomp {
				if d, ok := g.u.Decomp(cp); ok {
					heavy = append(heavy, exp{cp, len(d) * 16 / len(string(cp))})
				}
			}
			sort.Slice(heavy, func(i, j int) bool {
				if heavy[i].ratio != heavy[j].ratio {
					return heavy[i].ratio > heavy[j].ratio
				}
				return heavy[i].cp < heavy[j].cp
			})
			for hi := 0; hi < 40 && hi < len(heavy); hi++ {
				for _, n := range []int{1, 3, 6, 12, 25, 50, 100} {
					if hi >= 8 && n != 25 && n != 100 {
						continue
					}
					s := strings.Repeat(string(heavy[hi].cp), n)
					nf, _ := py.Normalize("NFKD", []string{s})
					gp := &c11group{lang: -1, kind: "expansion-run-passphrase", bm: "zoo zoo zoo zoo zoo zoo zoo zoo zoo zoo zoo wrong", bp: s}
					gp.variants = append(gp.variants, c11variant{m: gp.bm, p: nf[0], form: "NFKD"})
					emitGroup(gp)
					gm := &c11group{lang: -1, kind: "expansion-run-mnemonic", bm: s, bp: "x"}
					gm.variants = append(gm.variants, c11variant{m: nf[0], p: "x", form: "NFKD"})
					emitGroup(gm)
				}
			}
			// ASCII prefixes of every length before a character that NFKD changes
			for k := 0; k <= 40; k++ {
				c := string(g.pick(r, g.decomp))
				s := strings.Repeat("a", k) + c + strings.Repeat("b", r.Intn(12))
				n, _ := py.Normalize("NFKD", []string{s})
				gp := &c11group{lang: -1, kind: "ascii-prefix-passphrase", bm: "zoo zoo zoo zoo zoo zoo zoo zoo zoo zoo zoo wrong", bp: s}
				gp.variants = append(gp.variants, c11variant{m: gp.bm, p: n[0], form: "NFKD"})
				emitGroup(gp)
				gm := &c11group{lang: -1, kind: "ascii-prefix-mnemonic", bm: s, bp: ""}
				gm.variants = append(gm.variants, c11variant{m: n[0], p: "", form: "NFKD"})
				emitGroup(gm)
			}
			// a character that NFKD changes placed across every power-of-two byte offset a
			// chunked or windowed normaliser could cut at (the salt carries an 8-byte prefix, so
			// the offsets run from 12 bytes before the boundary to one byte after it)
			bounds := []int{1024, 4096, 8192, 65536}
			if e.Thorough() {
				bounds = []int{64, 128, 256, 512, 1024, 2048, 4096, 8192, 16384, 32768, 65536, 1 << 17}
			}
			for _, B := range bounds {
				var ss []string
				for d := -12; d <= 1; d++ {
					for _, c := range []string{"\u00e9", "\uac00", "\U0001d15e", "\u01c4"} {
						ss = append(ss, strings.Repeat("a", B+d)+c+"bbbbb")
					}
				}
				nf, _ := py.Normalize("NFKD", ss)
				for i, s := range ss {
					gp := &c11group{lang: -1, kind: "decomposable-character-across-a-power-of-two-offset-passphrase", bm: "x", bp: s}
					gp.variants = append(gp.variants, c11variant{m: "x", p: nf[i], form: "NFKD"})
					emitGroup(gp)
					gm := &c11group{lang: -1, kind: "decomposable-character-across-a-power-of-two-offset-mnemonic", bm: s, bp: ""}
					gm.variants = append(gm.variants, c11variant{m: nf[i], p: "", form: "NFKD"})
					emitGroup(gm)
				}
			}
		}
		// passphrases (and mnemonic positions) from the combining/compatibility generators, two spellings
		n := e.pick(400, 20000)
		py := e.Py()
		const batch = 200
		for done := 0; done < n; done += batch {
			ss := make([]string, batch)
			for i := range ss {
				switch i % 4 {
				case 0:
					ss[i] = g.Compat(r, 1+r.Intn(8))
				case 1:
					if i%16 == 1 { // runs up to the stream-safe limit of 30 non-starters
						ss[i] = g.Reordering(r, 18+r.Intn(13))
					} else {
						ss[i] = g.Reordering(r, 2+r.Intn(8))
					}
				case 2:
					b := &builder{g: g}
					for k := 0; k <= r.Intn(4); k++ {
						b.add(g.pick(r, g.marks))
					}
					b.addString(g.RandString(r, r.Intn(8)))
					ss[i] = b.String()
				default:
					ss[i] = g.RandString(r, 1+r.Intn(20))
				}
			}
			forms := map[string][]string{}
			for _, f := range []string{"NFC", "NFD", "NFKC", "NFKD"} {
				forms[f], _ = py.Normalize(f, ss)
			}
			for i, s := range ss {
				m := e.Model.Enc(r.Bytes(16), r.Intn(ref.NLang))
				grp := &c11group{lang: -1, kind: "passphrase", bm: m, bp: s}
				for _, f := range []string{"NFC", "NFD", "NFKC", "NFKD"} {
					grp.variants = append(grp.variants, c11variant{m: m, p: forms[f][i], form: f})
				}
				rs, _ := g.Respell(r, forms["NFKD"][i], 1, 2)
				grp.variants = append(grp.variants, c11variant{m: m, p: rs, form: "preimage-random"})
				emitGroup(grp)
				if i%4 == 0 {
					// the same strings in the mnemonic position
					g2 := &c11group{lang: -1, kind: "free-mnemonic", bm: s, bp: "pw"}
					for _, f := range []string{"NFC", "NFD", "NFKC", "NFKD"} {
						g2.variants = append(g2.variants, c11variant{m: forms[f][i], p: "pw", form: f})
					}
					emitGroup(g2)
				}
			}
		}
	}

	stats := e.RunStream(StreamOpts{Drv: drv, Window: 64}, func(emit func(*Item)) {
		gen(func(grp *c11group) {
			if !u.InDomain(grp.bm, maxRun) || !u.InDomain(grp.bp, maxRun) {
				skipped.Inc("base-outside-oracle-domain")
				return
			}
			ss := []string{grp.bm, grp.bp}
			for _, v := range grp.variants {
				ss = append(ss, v.m, v.p)
			}
			n, ok := e.NFKD(ss)
			kept := grp.variants[:0]
			for i, v := range grp.variants {
				if !ok[0] || !ok[1] || !ok[2+2*i] || !ok[3+2*i] || n[2+2*i] != n[0] || n[3+2*i] != n[1] || !u.InDomain(v.m, maxRun) || !u.InDomain(v.p, maxRun) {
					skipped.Inc("precondition-false:" + v.form)
					continue
				}
				kept = append(kept, v)
			}
			grp.variants = kept
			if len(kept) == 0 {
				return
			}
			emit(&Item{Op: plan.Op{Fn: "seed", S: hxs(grp.bm), P: hxs(grp.bp)}, Exp: c11exp{grp, -1}})
			for i, v := range grp.variants {
				emit(&Item{Op: plan.Op{Fn: "seed", S: hxs(v.m), P: hxs(v.p)}, Exp: c11exp{grp, i}})
			}
		})
	}, func(it *Item, r *plan.Res) {
		x := it.Exp.(c11exp)
		if f := failure(r); f != "" {
			skipped.Inc("crash-not-judged-here")
			return
		}
		grp := x.grp
		if x.role < 0 {
			// the baseline spelling is additionally compared with the reference seed
			// (whether the common value is the right one is C04's question; recorded only)
			if want, ok := e.RefSeed(grp.bm, grp.bp); ok {
				refChecked.Inc("baseline-vs-reference")
				if hx(want) != r.Out {
					refChecked.Inc("baselines_differing_from_the_reference(C04's business)")
				}
			}
			mu.Lock()
			grp.baseSeed = r.Out
			pend := grp.pending
			grp.pending = nil
			mu.Unlock()
			for _, p := range pend {
				compare(grp, p)
			}
			return
		}
		p := c11pend{role: x.role, seed: r.Out, op: it.Op}
		mu.Lock()
		if grp.baseSeed == "" {
			grp.pending = append(grp.pending, p)
			mu.Unlock()
			return
		}
		mu.Unlock()
		compare(grp, p)
	})

	// histories: within one process, all seed calls whose arguments have equal NFKD forms
	// (U+0020- and U+3000-joined spellings among them) must agree
	histCalls := e.runHistories(drv, "C11", e.pick(24, 300), 3, func(ops []plan.Op, res []plan.Res) {
		first := map[string]int{}
		for i := range res {
			op := &ops[i]
			if op.Fn != "seed" || res[i].Panic != "" {
				continue
			}
			n, ok := e.NFKD([]string{op.Str(), op.Pass()})
			if !ok[0] || !ok[1] {
				continue
			}
			if want := hx(ref.Seed([]byte(n[0]), []byte(n[1]))); res[i].Out != want {
				// a seed that differs from the reference AND from the same call run alone was
				// influenced by an earlier spelling or call
				if s := e.Solo(drv, *op); s.Died == "" && s.Out != res[i].Out {
					e.Violate(&Violation{What: fmt.Sprintf("within a sequence of calls in one process MnemonicToSeed(%s, %s) = %s, but %s when the call is made alone: the seed depends on spellings seen earlier", preview(op.Str()), preview(op.Pass()), res[i].Out, s.Out),
						Ops: ops[:i+1], Expected: map[string]string{"out_hex": s.Out}, Observed: res[i], Detail: historyNote})
					return
				}
			}
			key := n[0] + "\x00" + n[1]
			j, seen := first[key]
			if !seen {
				first[key] = i
				continue
			}
			if res[j].Out != res[i].Out {
				e.Violate(&Violation{What: fmt.Sprintf("within one process MnemonicToSeed(%s, %s) = %s but the equivalent spelling (%s, %s) gave %s", preview(op.Str()), preview(op.Pass()), res[i].Out, preview(ops[j].Str()), preview(ops[j].Pass()), res[j].Out),
					Ops: ops[:i+1], Expected: map[string]string{"out_hex": res[j].Out}, Observed: res[i], Detail: historyNote})
				return
			}
		}
	})
	refChecked.Add("calls_inside_histories", histCalls)

	// the concurrent flavour of this monitor (C12 is the full treatment)
	concCalls := e.concurrentSmoke(drv, "C11", e.smokePool("C11", "seed"), e.pick(2, 12), e.pick(25, 100), e.smokeAgree("seed"))

	// known-finding witnesses (D3): exact pairs listed in KNOWN_FINDINGS.txt
	for _, f := range e.KnownKeys() {
		kv := parseKey(f.Key)
		ops := []plan.Op{{I: 0, Fn: "seed", S: kv["m1"], P: kv["p1"]}, {I: 1, Fn: "seed", S: kv["m2"], P: kv["p2"]}}
		res, died := e.RunProc(drv, ops, nil, 0)
		if died != "" || len(res) != 2 {
			e.Violate(&Violation{What: "MnemonicToSeed did not return normally on a listed witness pair: " + died, Ops: ops})
			continue
		}
		n, ok := e.NFKD([]string{string(unhex(kv["m1"])), string(unhex(kv["m2"])), string(unhex(kv["p1"])), string(unhex(kv["p2"]))})
		if !ok[0] || !ok[1] || !ok[2] || !ok[3] || n[0] != n[1] || n[2] != n[3] {
			fatalInconclusive("known-finding witness pair %s does not have equal NFKD forms", f.Key)
		}
		refChecked.Inc("known_witness_pairs_run")
		switch {
		case res[0].Out == res[1].Out:
			refChecked.Inc("known_witness_pairs_no_longer_failing")
		case strings.HasPrefix(res[0].Out, kv["seed1"]) && strings.HasPrefix(res[1].Out, kv["seed2"]) && kv["seed1"] != "" && kv["seed2"] != "":
			e.ReportKnown(f, "observed "+res[0].Out[:16]+"... vs "+res[1].Out[:16]+"...")
		default:
			e.Violate(&Violation{What: fmt.Sprintf("listed witness pair %s: seeds %s and %s differ and are not the values recorded for the known finding", f.Key, res[0].Out, res[1].Out), Ops: ops, Observed: res})
		}
	}

	covCount := map[string]string{}
	total, got := 0, 0
	for lang := 0; lang < ref.NLang; lang++ {
		for _, f := range spellForms {
			key := ref.Names[lang] + "/" + f
			want := tab.nontrivial[key]
			have := len(covered[key])
			covCount[key] = fmt.Sprintf("%d of %d", have, want)
			total += want
			got += have
			if e.Violations() == 0 && have != want {
				fatalInconclusive("C11: only %d of %d non-trivial spellings compared for %s", have, want, key)
			}
		}
	}
	e.WriteEvidence("exploration", map[string]any{
		"evaluations":                      stats.Ops,
		"distinct_nontrivial":              nontrivial.Len(),
		"calls_repeated_under_concurrency": concCalls,
		"rule":                             "a case is a pair of (mnemonic, passphrase) pairs with component-wise equal NFKD forms according to CPython (pairs failing the precondition are skipped and counted): sentences containing every list word of every language spelled in NFC/NFD/NFKC/NFKD/single-code-point pre-images/mixed, joined by U+0020, U+3000 or another space-like code point (Japanese always with both separators); passphrases and free-form mnemonics from the compatibility/combining generators in their four normal forms and a random pre-image respelling; a decomposable character (2-, 3- and 4-byte, and a digraph) placed at every byte offset from 12 before to 1 after the powers of two 1024, 4096, 8192, 65536 (thorough: 64..2^17), as mnemonic and as passphrase; the baseline of every group is also compared with the reference seed; non-trivial = the spellings differ bytewise; distinct by the four strings",
		"samples":                          smp.List(),
		"pairs_compared":                   pairs.Map(),
		"pairs_skipped":                    skipped.Map(),
		"which_component_differs":          differ.Map(),
		"reference_checks":                 refChecked.Map(),
		"word_form_coverage":               covCount,
		"nontrivial_word_forms_compared":   got,
		"nontrivial_word_forms_possible":   total,
		"python_normalisations":            e.Py().Calls,
		"children":                         stats.Children,
	}, []string{
		"CPython unicodedata NFKD decides which pairs are equivalent (Unicode 14; assigned code points; non-starter runs <= 25 except the listed known-finding witnesses)",
	})
}
