package main

import (
	"crypto/sha256"
	"sort"
	"strings"

	"aaverif/internal/ref"
	"aaverif/internal/rng"
)

// EntCase is one (entropy, language) pair of the encoder corpus.
type EntCase struct {
	Ent   []byte
	Lang  int
	Class string
}

// packBits packs a most-significant-first bit array into bytes.
func packBits(bits []byte) []byte {
	out := make([]byte, len(bits)/8)
	for i, b := range bits {
		out[i/8] |= b << uint(7-i%8)
	}
	return out
}

// entropyFromIndices builds the entropy whose encoding has the given indices
// at word positions 0..n-2 and the given free top bits in the last word.
func entropyFromIndices(size int, idx []int, lastTop int) []byte {
	ent := size * 8
	cs := size / 4
	n := (ent + cs) / 11
	bits := make([]byte, 0, ent)
	for p := 0; p < n-1; p++ {
		for k := 10; k >= 0; k-- {
			bits = append(bits, byte(idx[p]>>uint(k))&1)
		}
	}
	free := 11 - cs
	for k := free - 1; k >= 0; k-- {
		bits = append(bits, byte(lastTop>>uint(k))&1)
	}
	return packBits(bits)
}

// walkingEntropy is entropy number v of the walking-index family: position p
// carries index (v*mul + step*p + off) mod 2048, so that as v runs over
// 0..2047 every (position, index) pair of the first n-1 positions occurs
// (mul must be odd).
func walkingEntropy(size, v, mul, step, off int) []byte {
	n := size * 3 / 4
	idx := make([]int, n-1)
	for p := range idx {
		idx[p] = ((v*mul+step*p+off)%2048 + 2048) % 2048
	}
	free := 11 - size/4
	return entropyFromIndices(size, idx, (v*mul+off)&(1<<uint(free)-1))
}

// boundaryEntropies are the run-of-bits and run-of-bytes patterns of a size.
func boundaryEntropies(size int, emit func(ent []byte, class string)) {
	ent := size * 8
	mk := func(f func(i int) byte) []byte {
		bits := make([]byte, ent)
		for i := range bits {
			bits[i] = f(i)
		}
		return packBits(bits)
	}
	for k := 0; k <= ent; k++ {
		emit(mk(func(i int) byte { // 0^k 1^(ENT-k)
			if i < k {
				return 0
			}
			return 1
		}), "zeros-then-ones")
		emit(mk(func(i int) byte { // 1^k 0^(ENT-k)
			if i < k {
				return 1
			}
			return 0
		}), "ones-then-zeros")
	}
	for k := 0; k < ent; k++ {
		emit(mk(func(i int) byte {
			if i == k {
				return 1
			}
			return 0
		}), "single-set-bit")
		emit(mk(func(i int) byte {
			if i == k {
				return 0
			}
			return 1
		}), "single-clear-bit")
	}
	r := rng.New(uint64(size), "boundary-bytes")
	for z := 1; z <= size; z++ {
		b := r.Bytes(size)
		for i := 0; i < z; i++ {
			b[i] = 0
		}
		if z < size && b[z] == 0 {
			b[z] = 0x5a
		}
		emit(b, "leading-zero-bytes")
		t := r.Bytes(size)
		for i := 0; i < z; i++ {
			t[size-1-i] = 0
		}
		emit(t, "trailing-zero-bytes")
		o := r.Bytes(size)
		for i := 0; i < z; i++ {
			o[i] = 0xff
		}
		emit(o, "leading-ff-bytes")
	}
}

// leadingZeroBytes counts the zero bytes at the start of b.
func leadingZeroBytes(b []byte) int {
	n := 0
	for n < len(b) && b[n] == 0 {
		n++
	}
	return n
}

// csCoverage tracks which values of SHA-256(e)[0] were seen per size and which
// indices were seen at the last word position per (language, size).
type csCoverage struct {
	firstByte [5][256]bool
	fbCount   [5]int
}

func sizeIdx(size int) int { return size/4 - 4 }

func (c *csCoverage) note(ent []byte) {
	h := sha256.Sum256(ent)
	s := sizeIdx(len(ent))
	if !c.firstByte[s][h[0]] {
		c.firstByte[s][h[0]] = true
		c.fbCount[s]++
	}
}

// entropyCorpus emits the encoder corpus for C01/C02/C05. It is a pure
// function of (seed, tier). Coverage-driven parts continue (by count) until
// the generator itself has seen every checksum byte at every width for every
// language, and in the thorough tier every index at the last word position.
func (e *Env) entropyCorpus(label string, emit func(EntCase)) {
	rounds := e.pick(1, 10)
	for lang := 0; lang < ref.NLang; lang++ {
		for _, size := range ref.EntSizes {
			// 1. walking index
			for round := 0; round < rounds; round++ {
				mul, step, off := 1, 89, 0
				if round > 0 {
					r := rng.New(e.Seed, label+"-walk-"+itoa(lang)+"-"+itoa(size)+"-"+itoa(round))
					mul, step, off = 2*r.Intn(1024)+1, r.Intn(2048), r.Intn(2048)
				}
				for v := 0; v < 2048; v++ {
					emit(EntCase{walkingEntropy(size, v, mul, step, off), lang, "walking-index"})
				}
			}
			// 2. boundary runs
			boundaryEntropies(size, func(ent []byte, class string) {
				emit(EntCase{ent, lang, class})
			})
			// 2b. sentences of extreme byte length: the longest and the shortest words of the list
			for _, ent := range e.extremeEntropies(lang, size, label) {
				emit(EntCase{ent, lang, "longest-or-shortest-words"})
			}
			// 2b'. sentences in which words repeat (two or three distinct words only)
			rr := rng.New(e.Seed, label+"-repeat-"+itoa(lang)+"-"+itoa(size))
			for k := 0; k < 24; k++ {
				pool := []int{rr.Intn(2048), rr.Intn(2048), rr.Intn(2048)}[:2+k%2]
				first := make([]int, size*3/4-1)
				for i := range first {
					first[i] = pool[rr.Intn(len(pool))]
				}
				emit(EntCase{entropyFromIndices(size, first, rr.Intn(1<<uint(11-size/4))), lang, "repeated-words"})
			}
			// 2c. byte-value sweeps and runs of ones in the middle (carries, limb boundaries)
			br := rng.New(e.Seed, label+"-bytes-"+itoa(lang)+"-"+itoa(size))
			for p := 0; p < size; p++ {
				for _, v := range []byte{0x00, 0x7f, 0x80, 0xff} {
					b := br.Bytes(size)
					b[p] = v
					if p+1 < size && br.Intn(2) == 0 {
						b[p+1] = v
					}
					emit(EntCase{b, lang, "byte-value-sweep"})
				}
			}
			if lang == int(e.Seed%uint64(ref.NLang)) || e.Thorough() {
				for _, runLen := range []int{2, 11, 12, 63, 64, 65} {
					for start := 0; start+runLen <= size*8; start++ {
						bits := make([]byte, size*8)
						for i := start; i < start+runLen; i++ {
							bits[i] = 1
						}
						emit(EntCase{packBits(bits), lang, "run-of-ones-in-the-middle"})
						for i := range bits {
							bits[i] ^= 1
						}
						emit(EntCase{packBits(bits), lang, "run-of-zeros-in-the-middle"})
					}
				}
			}
			// 3. random until coverage
			r := rng.New(e.Seed, label+"-rand-"+itoa(lang)+"-"+itoa(size))
			var cov csCoverage
			lastSeen := make([]bool, 2048)
			lastCount := 0
			n := 0
			minRandom := e.pick(500, 20000)
			for {
				ent := r.Bytes(size)
				cov.note(ent)
				idx := ref.Indices(ent)
				if li := idx[len(idx)-1]; !lastSeen[li] {
					lastSeen[li] = true
					lastCount++
				}
				emit(EntCase{ent, lang, "random"})
				n++
				done := cov.fbCount[sizeIdx(size)] == 256 && n >= minRandom
				if e.Thorough() {
					done = done && lastCount == 2048
				}
				if done || n > 5000000 {
					break
				}
			}
		}
	}
}

// splitSentence splits a generated sentence on the language's separator.
func splitSentence(s string, lang int) []string {
	return strings.Split(s, ref.Sep(lang))
}

// isSpace is Unicode white space as the reference validator understands it.
func fieldsUnicode(s string) []string { return strings.Fields(s) }

// extremeIndices returns, for a language, the indices of its k longest and k
// shortest words (by bytes).
func (e *Env) extremeIndices(lang, k int) (longest, shortest []int) {
	idx := make([]int, 2048)
	for i := range idx {
		idx[i] = i
	}
	l := e.Model.List[lang]
	sort.SliceStable(idx, func(a, b int) bool { return len(l[idx[a]]) > len(l[idx[b]]) })
	longest = append(longest, idx[:k]...)
	shortest = append(shortest, idx[2048-k:]...)
	return
}

// extremeEntropies returns entropies whose sentences consist of the longest
// (resp. shortest) words of the list: the extremes of sentence byte length.
func (e *Env) extremeEntropies(lang, size int, label string) [][]byte {
	r := rng.New(e.Seed, label+"-extreme-"+itoa(lang)+"-"+itoa(size))
	longest, shortest := e.extremeIndices(lang, 8)
	n := size * 3 / 4
	var out [][]byte
	for rep := 0; rep < 6; rep++ {
		for _, pool := range [][]int{longest[:1+rep%8], shortest[:1+rep%8], longest, shortest} {
			first := make([]int, n-1)
			for i := range first {
				first[i] = pool[r.Intn(len(pool))]
			}
			// choose the free bits of the last word so that it is as long (short) as possible
			best, bestLen := 0, -1
			for top := 0; top < 1<<uint(11-size/4); top++ {
				idx := ref.Indices(entropyFromIndices(size, first, top))
				wl := len(e.Model.List[lang][idx[n-1]])
				if &pool[0] == &shortest[0] {
					wl = -wl
				}
				if bestLen == -1 || wl > bestLen {
					best, bestLen = top, wl
				}
			}
			out = append(out, entropyFromIndices(size, first, best))
		}
	}
	return out
}
