package main

import (
	"fmt"
	"math"
	"strings"
	"sync"
	"time"

	"aaverif/internal/plan"
	"aaverif/internal/ref"
	"aaverif/internal/rng"
)

func init() { register("C14", checkC14) }

type c14exp struct {
	fn    string
	shape string
	bytes int // argument bytes (for the CPU budget)
	lang  int64
}

func segsLen(segs []plan.Seg) int {
	n := 0
	for _, s := range segs {
		n += len(s.H) / 2 * s.R
	}
	return n
}

// cpuBudget is the hang threshold of one call: 10 s plus 8 s per MiB of
// argument bytes (16x the worst cost measured on this machine).
func cpuBudget(argBytes int) time.Duration {
	return 10*time.Second + time.Duration(float64(argBytes)/(1<<20)*8*float64(time.Second))
}

type hostileString struct {
	name string
	segs []plan.Seg
}

func rep(s string, n int) plan.Seg { return plan.Seg{H: hxs(s), R: n} }

// hostileStringShapes lists the string arguments; max is the size cap in bytes.
func (e *Env) hostileStringShapes(max int) []hostileString {
	m := e.Model
	var out []hostileString
	add := func(name string, segs ...plan.Seg) {
		if segsLen(segs) <= max {
			out = append(out, hostileString{name, segs})
		}
	}
	sizes := []int{1, 100, 10000, 1 << 20}
	if max > 1<<20 {
		sizes = append(sizes, 4<<20, max)
	}
	add("empty")
	for _, n := range []int{1, 11, 12, 23, 24, 25, 10000, 1000000} {
		add(fmt.Sprintf("spaces-%d", n), rep(" ", n))
	}
	for _, n := range sizes {
		add(fmt.Sprintf("one-token-%d", n), rep("a", n))
		add(fmt.Sprintf("tokens-%d", n/2), rep("a ", n/2))
		add(fmt.Sprintf("abandon-tokens-%d", n/8), rep("abandon ", n/8))
		add(fmt.Sprintf("nul-%d", n), rep("\x00", n))
		add(fmt.Sprintf("ff-%d", n), rep("\xff", n))
		add(fmt.Sprintf("lone-continuation-%d", n), rep("\x80", n))
		add(fmt.Sprintf("truncated-sequence-%d", n/2), rep("\xe3\x81", n/2))
		add(fmt.Sprintf("overlong-%d", n/2), rep("\xc0\xaf", n/2))
		add(fmt.Sprintf("encoded-surrogate-%d", n/3), rep("\xed\xa0\x80", n/3))
		add(fmt.Sprintf("four-byte-beyond-range-%d", n/4), rep("\xf4\x90\x80\x80", n/4))
		add(fmt.Sprintf("combining-acute-%d", n/2), rep("a", 1), rep("\u0301", n/2))
		add(fmt.Sprintf("combining-alternating-classes-%d", n/4), rep("a", 1), rep("\u0301\u0316", n/4))
		add(fmt.Sprintf("fdfa-%d", n/3), rep("\ufdfa", n/3))
		add(fmt.Sprintf("hangul-%d", n/3), rep("\ud55c", n/3))
		add(fmt.Sprintf("jamo-%d", n/9), rep("\u1112\u1161\u11ab", n/9))
		add(fmt.Sprintf("unassigned-%d", n/2), rep("\u0378", n/2))
		add(fmt.Sprintf("noncharacter-%d", n/4), rep("\U0010ffff", n/4))
		add(fmt.Sprintf("u3000-%d", n/3), rep("\u3000", n/3))
		add(fmt.Sprintf("fullwidth-words-%d", n/16), rep("\uff41\uff42\uff43\uff44\u3000", n/16))
		add(fmt.Sprintf("tibetan-%d", n/6), rep("\u0f73\u0f81", n/6))
		add(fmt.Sprintf("mixed-valid-invalid-%d", n/8), rep("ab\xffcd \xc3", n/8))
	}
	// 24 list words, each followed by a long run of letters
	pad := 150000
	if max <= 1<<20 {
		pad = 40000
	}
	w := m.Words(make([]byte, 32), 2)
	var segs []plan.Seg
	for _, x := range w {
		segs = append(segs, rep(x, 1), rep("q", pad), rep(" ", 1))
	}
	add("24-words-with-long-tails", segs...)
	// valid sentences of every language followed by garbage
	for lang := 0; lang < ref.NLang; lang++ {
		s := m.Enc(make([]byte, 16), lang)
		add("valid-"+ref.Names[lang], rep(s, 1))
		add("valid-then-ff-"+ref.Names[lang], rep(s, 1), rep("\xff", 3))
		add("valid-repeated-"+ref.Names[lang], rep(s+" ", 2000))
	}
	// seeded splices of the shapes above
	r := rng.New(e.Seed, "C14-splice")
	units := []string{" ", "a", "\xff", "\x80", "\u0301", "\ufdfa", "\ud55c", "\x00", "abandon", "\u3000", "\xed\xa0\x80", "\U0010ffff", "\u0378", "zoo "}
	for k := 0; k < e.pick(60, 1500); k++ {
		var sg []plan.Seg
		for j := 0; j <= r.Intn(6); j++ {
			sg = append(sg, rep(units[r.Intn(len(units))], 1+r.Intn(1<<uint(r.Intn(14)))))
		}
		add(fmt.Sprintf("splice-%d", k), sg...)
	}
	return out
}

func checkC14(e *Env) {
	drv := e.BuildDrv(false)
	perFn := newCounter()
	langsSeen := newDistinct()
	sizeClasses := newCounter()
	dist := newDistinct()
	smp := newSamples(10)
	outcomes := newCounter()

	langVals := []int64{math.MinInt64, math.MinInt32, -(1 << 31) - 1, -10, -1, 0, 1, 2, 3, 4, 5, 6, 7, 8, 9, 10, 11, 255, 256, math.MaxInt32, 1 << 32, math.MaxInt64,
		// values that become something else when narrowed to 8, 16 or 32 bits
		127, 128, 129, 200, 254, 258, 32767, 32768, 40000, 65535, 65536, 65538, 1 << 31, 1<<31 + 2, 1<<32 + 2, -128, -129, -254, -256, -32768, -32769, -65534, -65536, -(1 << 32) + 2}
	maxStr := e.pick(1<<20, 16<<20)

	sizeClass := func(n int) string {
		switch {
		case n == 0:
			return "0"
		case n <= 64:
			return "<=64B"
		case n <= 4096:
			return "<=4KiB"
		case n <= 1<<20:
			return "<=1MiB"
		default:
			return ">1MiB"
		}
	}

	stats := e.RunStream(StreamOpts{Drv: drv, Sync: true, Window: 4, CPUBudget: func(it *Item) time.Duration { return cpuBudget(it.Exp.(c14exp).bytes) }},
		func(emit func(*Item)) {
			r := rng.New(e.Seed, "C14")
			lv := append([]int64(nil), langVals...)
			for k := 0; k < e.pick(6, 200); k++ {
				lv = append(lv, int64(r.Uint64()))
			}
			send := func(op plan.Op, shape string) {
				b := len(op.S)/2 + len(op.P)/2 + len(op.E)/2 + segsLen(op.SSegs) + segsLen(op.PSegs) + segsLen(op.ESegs)
				emit(&Item{Op: op, Exp: c14exp{fn: op.Fn, shape: shape, bytes: b, lang: op.L}})
			}
			valid := map[int]string{}
			for l := 0; l < ref.NLang; l++ {
				valid[l] = e.Model.Enc(r.Bytes(16), l)
			}
			// every function and method with every Language value
			for _, l := range lv {
				send(plan.Op{Fn: "str", L: l}, "language-value")
				for _, size := range []int{0, 15, 16, 20, 24, 28, 32, 33, 36, 40, 64} {
					send(plan.Op{Fn: "enc", L: l, E: hx(r.Bytes(size))}, "language-value")
				}
				send(plan.Op{Fn: "enc", L: l, ENil: true}, "language-value-nil-entropy")
				for _, n := range []int64{0, 3, 12, 15, 18, 21, 24, 27, -12} {
					send(plan.Op{Fn: "new", L: l, N: n}, "language-value-default-source")
					send(plan.Op{Fn: "new", L: l, N: n, Src: &plan.Src{Data: hx(r.Bytes(40))}}, "language-value-scripted-source")
				}
				for _, s := range []string{"", " ", valid[2], valid[5], valid[int(uint64(l)%10)], "abandon abandon", strings.Repeat("zoo ", 11) + "wrong", "\xff\xfe"} {
					send(plan.Op{Fn: "chk", L: l, S: hxs(s)}, "language-value")
					send(plan.Op{Fn: "val", L: l, S: hxs(s)}, "language-value")
				}
				// every token count 0..40 and a valid sentence of every word count
				for k := 0; k <= 40; k++ {
					s := strings.TrimSuffix(strings.Repeat("abandon ", k), " ")
					send(plan.Op{Fn: "chk", L: l, S: hxs(s)}, "language-value-token-count")
					if k%3 == 0 {
						send(plan.Op{Fn: "val", L: l, S: hxs(strings.Repeat("\u3042\u3044\u3053\u304f\u3057\u3093\u3000", k))}, "language-value-token-count")
					}
				}
				for _, size := range ref.EntSizes {
					for _, sl := range []int{2, int(uint64(l) % 10)} {
						s := e.Model.Enc(r.Bytes(size), sl)
						send(plan.Op{Fn: "chk", L: l, S: hxs(s)}, "language-value-valid-sentence")
						send(plan.Op{Fn: "val", L: l, S: hxs(s)}, "language-value-valid-sentence")
						send(plan.Op{Fn: "seed", S: hxs(s), P: hxs("p")}, "valid-sentence")
					}
				}
			}
			// every entropy length 0..70, nil, and large ones, over a few languages
			for size := 0; size <= 70; size++ {
				for _, l := range []int64{0, 2, 5, 9, -1, 10, math.MinInt64} {
					send(plan.Op{Fn: "enc", L: l, E: hx(r.Bytes(size))}, "entropy-length")
				}
				// the same lengths in slices with a little spare capacity behind them
				for _, extra := range []int{1, 2, 3, 5, 9} {
					send(plan.Op{Fn: "enc", L: int64(size % ref.NLang), E: hx(r.Bytes(size)), Cap: extra}, "entropy-length-with-spare-capacity")
				}
			}
			for _, size := range []int{1 << 10, 1 << 16, 1 << 20, maxStr} {
				send(plan.Op{Fn: "enc", L: 2, ESegs: []plan.Seg{{H: "00", R: size}}}, "entropy-large")
				send(plan.Op{Fn: "enc", L: -5, ESegs: []plan.Seg{{H: "ff", R: size}}}, "entropy-large")
			}
			// word counts
			var counts []int64
			for n := int64(-40); n <= 60; n++ {
				counts = append(counts, n)
			}
			counts = append(counts, math.MinInt64, math.MinInt64+12, math.MinInt32, math.MaxInt32, 1<<32+12, 1<<32+24, 1<<31, math.MaxInt64, math.MaxInt64-2, math.MaxInt64-11, 1<<62)
			for i, n := range counts {
				l := lv[i%len(lv)]
				send(plan.Op{Fn: "new", L: l, N: n}, "word-count-default-source")
				send(plan.Op{Fn: "new", L: l, N: n, Src: &plan.Src{Data: hx(r.Bytes(48))}}, "word-count-working-source")
				send(plan.Op{Fn: "new", L: l, N: n, Src: &plan.Src{Data: "", Steps: []plan.Step{{N: 0, E: "custom"}}}}, "word-count-failing-source")
				if validCount64(n) || i%9 == 0 {
					for _, kind := range failureKinds[3:] {
						send(plan.Op{Fn: "new", L: l, N: n, Src: &plan.Src{Data: hx(r.Bytes(7)), Steps: []plan.Step{{N: 7, E: kind}}}}, "word-count-source-failing-with-"+kind)
					}
				}
				// a source that returns (0, nil) a bounded number of times before delivering
				zs := make([]plan.Step, 0, 40)
				for k := 0; k < 32; k++ {
					zs = append(zs, plan.Step{N: 0})
				}
				zs = append(zs, plan.Step{N: 1}, plan.Step{N: 0}, plan.Step{N: 0})
				send(plan.Op{Fn: "new", L: l, N: n, Src: &plan.Src{Data: hx(r.Bytes(48)), Steps: zs}}, "word-count-stuttering-source")
				send(plan.Op{Fn: "new", L: l, N: n, Src: &plan.Src{Data: hx(r.Bytes(5))}}, "word-count-short-source")
				// an endless source that never fills a request at once: 1, 5 or 31 bytes per read
				send(plan.Op{Fn: "new", L: l, N: n, Src: &plan.Src{Data: hx(r.Bytes(64)), Cycle: true, Max: []int{1, 5, 31}[i%3]}}, "word-count-endless-fragmenting-source")
			}
			// a valid sentence frame of every word count with ONE hostile token: every token
			// length 1..130 in runes for 1-, 2-, 3- and 4-byte runes and for invalid bytes
			for ui, unit := range []string{"q", "\u00e9", "\u3042", "\U0001f600", "\xff", "\u0301", "\ud55c"} {
				for n := 1; n <= 130; n++ {
					size := ref.EntSizes[(n+ui)%5]
					sl := []int{2, 5, 6, 0, 3}[(n+ui)%5]
					w := strings.Split(e.Model.Enc(r.Bytes(size), sl), ref.Sep(sl))
					pos := []int{0, len(w) / 2, len(w) - 1}[n%3]
					w[pos] = strings.Repeat(unit, n)
					s := strings.Join(w, " ")
					send(plan.Op{Fn: "chk", L: int64(sl), S: hxs(s)}, "frame-with-hostile-token")
					if n%4 == 0 {
						send(plan.Op{Fn: "val", L: int64(sl), S: hxs(s)}, "frame-with-hostile-token")
					}
				}
			}
			for _, n := range []int{200, 500, 861, 862, 1000, 4096, 70000} {
				for _, unit := range []string{"k", "\u4e00"} {
					w := strings.Split(e.Model.Enc(r.Bytes(16), 2), " ")
					w[n%12] = strings.Repeat(unit, n)
					send(plan.Op{Fn: "chk", L: 2, S: hxs(strings.Join(w, " "))}, "frame-with-long-token")
				}
			}
			// sentences of 10..27 words in which one or two separators are other space-like
			// code points (raw and normalised token counts differ)
			for k := 10; k <= 27; k++ {
				for si, sp := range []string{"\u00a0", "\u2003", "\u202f", "\u3000", "\u2009", "\t", "\n", "\u2028"} {
					sl := []int{2, 5, 7, 0}[(k+si)%4]
					w := make([]string, k)
					for i := range w {
						w[i] = e.Model.List[sl][1+r.Intn(2047)]
					}
					for _, pos := range []int{1, k / 2, k - 1} {
						s := strings.Join(w[:pos], " ") + sp + strings.Join(w[pos:], " ")
						send(plan.Op{Fn: "chk", L: int64(sl), S: hxs(s)}, "one-space-like-separator")
					}
					s2 := strings.Join(w[:2], sp) + " " + strings.Join(w[2:k-1], " ") + sp + w[k-1]
					send(plan.Op{Fn: "val", L: int64(sl), S: hxs(s2)}, "two-space-like-separators")
				}
			}
			// hostile strings for every string-taking function
			for i, hs := range e.hostileStringShapes(maxStr) {
				ls := []int64{int64(i % ref.NLang), 2, lv[i%len(lv)]}
				for _, l := range ls {
					send(plan.Op{Fn: "chk", L: l, SSegs: hs.segs}, hs.name)
					send(plan.Op{Fn: "val", L: l, SSegs: hs.segs}, hs.name)
				}
				if len(hs.segs) == 0 {
					hs.segs = []plan.Seg{{H: "", R: 0}}
				}
				send(plan.Op{Fn: "seed", SSegs: hs.segs, P: hxs("p")}, hs.name+"/as-mnemonic")
				send(plan.Op{Fn: "seed", S: hxs("m"), PSegs: hs.segs}, hs.name+"/as-passphrase")
				if segsLen(hs.segs) <= 1<<16 {
					send(plan.Op{Fn: "seed", SSegs: hs.segs, PSegs: hs.segs}, hs.name+"/as-both")
				}
			}
		},
		func(it *Item, r *plan.Res) {
			x := it.Exp.(c14exp)
			perFn.Inc(x.fn)
			langsSeen.Add(fmt.Sprint(x.lang))
			sizeClasses.Inc(sizeClass(x.bytes))
			if f := failure(r); f != "" {
				kind := "panicked"
				if r.Died != "" {
					kind = "killed the process"
				} else if r.Hang != "" {
					kind = "did not return within its CPU budget"
				}
				outcomes.Inc(kind)
				e.Violate(&Violation{What: fmt.Sprintf("%s %s (shape %s, language %d, %d argument bytes): %s", fnName(x.fn), kind, x.shape, x.lang, x.bytes, oneLine(f, 400)), Ops: []plan.Op{it.Op}, Expected: "returns normally", Observed: r})
				return
			}
			outcomes.Inc("returned")
			dist.Add(x.fn, x.shape, fmt.Sprint(x.lang))
			if x.bytes > 1000 || x.lang < 0 || x.lang > 9 {
				smp.Add(map[string]any{"function": fnName(x.fn), "shape": x.shape, "language": x.lang, "argument_bytes": x.bytes, "cpu_ms": r.CPU / 1e6, "err": errText(r.Err)})
			}
		})

	// a panic or process death that needs a history or concurrency: memo-hunting sequences and
	// the concurrent flavour, both judged only for returning normally
	histCalls := e.runHistories(drv, "C14", e.pick(24, 300), 4, func(ops []plan.Op, res []plan.Res) {
		for i := range res {
			if res[i].Panic != "" {
				e.Violate(&Violation{What: fmt.Sprintf("%s panicked after earlier calls in the same process: %s", fnName(ops[i].Fn), oneLine(res[i].Panic, 300)), Ops: ops[:i+1], Expected: "returns normally", Observed: res[i], Detail: historyNote})
				return
			}
		}
	})
	// long runs of ordinary generating calls on the default source with mixed sizes and
	// languages in one process (pools and buffers that are refilled every so many bytes)
	longRuns := 0
	var mu sync.Mutex
	parallel(e.pick(4, 16), e.Workers, func(k int) {
		r := rng.New(e.Seed, "C14-long-"+itoa(k))
		var ops []plan.Op
		n := e.pick(1500, 20000)
		for i := 0; i < n; i++ {
			cnt := ref.WordCounts[r.Intn(5)]
			if k%2 == 1 && i%50 != 0 {
				cnt = ref.WordCounts[k%5] // mostly one size, now and then another
			}
			ops = append(ops, plan.Op{I: i, Fn: "new", L: int64(r.Intn(ref.NLang)), N: int64(cnt)})
		}
		res, died := e.RunProc(drv, ops, nil, 0)
		for i := range res {
			if res[i].Panic != "" {
				e.Violate(&Violation{What: fmt.Sprintf("NewMnemonic(%d, %s) on the default source panicked as call %d of a run of such calls in one process: %s", ops[i].N, ref.Names[ops[i].L], i, oneLine(res[i].Panic, 300)), Ops: ops[:i+1], Expected: "returns normally", Observed: res[i], Detail: historyNote})
				return
			}
		}
		if died != "" {
			e.Violate(&Violation{What: fmt.Sprintf("the process died during call %d of a run of default-source NewMnemonic calls: %s", len(res), oneLine(died, 300)), Ops: ops[:min(len(res)+1, len(ops))]})
			return
		}
		mu.Lock()
		longRuns += len(res)
		mu.Unlock()
	})
	// many DISTINCT ordinary calls of each function in one process, then the same ones again
	// (tables and memos that fill up): only "returns normally" is judged here
	distinctRuns := 0
	type wrapCase struct{ family, n int }
	wrapCases := []wrapCase{{0, 3000}, {1, 3000}, {2, 3000}, {3, 300}, {4, 3000}}
	if e.Thorough() {
		wrapCases = []wrapCase{{0, 40000}, {1, 40000}, {2, 40000}, {3, 1500}, {4, 40000}}
	}
	parallel(len(wrapCases), e.Workers, func(k int) {
		g := &seqGen{e: e, r: rng.New(e.Seed, "C14-distinct-"+itoa(k)), bufs: map[int][]byte{}}
		g.cacheWrap(wrapCases[k].family, wrapCases[k].n)
		for i := range g.ops {
			g.ops[i].Keep = false
		}
		res, died := e.RunProc(drv, g.ops, nil, 0)
		for i := range res {
			if res[i].Panic != "" {
				e.Violate(&Violation{What: fmt.Sprintf("%s panicked as call %d of a run of %d distinct calls of that kind in one process: %s", fnName(g.ops[i].Fn), i, wrapCases[k].n, oneLine(res[i].Panic, 300)), Ops: g.ops[:i+1], Expected: "returns normally", Observed: res[i], Detail: historyNote})
				return
			}
		}
		if died != "" {
			e.Violate(&Violation{What: fmt.Sprintf("the process died during call %d (%s) of a run of distinct calls: %s", len(res), fnName(g.ops[min(len(res), len(g.ops)-1)].Fn), oneLine(died, 300)), Ops: g.ops[:min(len(res)+1, len(g.ops))]})
			return
		}
		mu.Lock()
		distinctRuns += len(res)
		mu.Unlock()
	})
	concCalls := e.concurrentSmoke(drv, "C14", append(e.smokePool("C14", "chk"), e.smokePool("C14", "str")...), e.pick(2, 12), e.pick(200, 1000), nil)
	if e.Violations() == 0 && stats.Ops < 1000 {
		fatalInconclusive("C14: only %d calls completed", stats.Ops)
	}
	e.WriteEvidence("exploration", map[string]any{
		"evaluations":         stats.Ops,
		"distinct_nontrivial": dist.Len(),
		"calls_inside_histories_and_under_concurrency":     histCalls + concCalls,
		"default_source_calls_in_long_runs_of_one_process": longRuns,
		"calls_in_runs_of_many_distinct_calls_of_one_kind": distinctRuns,
		"rule":                        "cases are calls of every exported function and method with hostile arguments: Language values {MinInt64, MinInt32, -2^31-1, -10, -1, 0..9, 10, 11, 255, 256, MaxInt32, 2^32, MaxInt64, seeded random} for every function; entropy nil, every length 0..70 and up to the size cap; word counts -40..60 and the extremes of int with default, working, failing, stuttering ((0,nil) x32), short and endless fragmenting (1, 5 or 31 bytes per read) sources; strings: empty, spaces, one huge token, up to 10^6 tokens, 24 list words with long tails, every shape of invalid UTF-8, NUL, long runs of combining marks, U+FDFA, Hangul, unassigned code points and non-characters, and seeded splices, up to 1 MiB (thorough 16 MiB), each sent to CheckMnemonic, IsMnemonicValid and MnemonicToSeed (as mnemonic, as passphrase, as both); each call runs in a child that announces it first, so a panic, a process death or a call that consumes more than 10 s + 8 s/MiB of CPU is attributed to it; non-trivial = every call; distinct by (function, shape, language)",
		"samples":                     smp.List(),
		"calls_per_function":          perFn.Map(),
		"language_values":             langsSeen.Len(),
		"argument_size_classes":       sizeClasses.Map(),
		"outcomes":                    outcomes.Map(),
		"panics":                      outcomes.Get("panicked"),
		"child_deaths":                stats.Deaths,
		"hangs":                       stats.Hangs,
		"stalled_then_resolved_alone": stats.StalledResolved,
		"max_cpu_ms_single_call":      stats.MaxCPU / 1e6,
		"max_fraction_of_cpu_budget":  math.Round(stats.MaxCPUBudgetFrac*1000) / 1000,
		"children":                    stats.Children,
	}, []string{
		"a hang is a call that consumes more CPU than 10 s + 8 s per MiB of arguments (16x the worst measured cost) or that does not return when run alone within 30x that; slower-but-finite behaviour below the budget is not distinguished",
		"a child whose resident set exceeds 4 GiB is killed and the call in flight is reported as having killed the process",
	})
}

func fnName(fn string) string {
	switch fn {
	case "enc":
		return "NewMnemonicByEntropy"
	case "new":
		return "NewMnemonic"
	case "chk":
		return "CheckMnemonic"
	case "val":
		return "IsMnemonicValid"
	case "seed":
		return "MnemonicToSeed"
	case "str":
		return "Language.String"
	}
	return fn
}
