package main

import (
	"sort"
	"strings"
	"sync"

	"aaverif/internal/rng"
)

// maxRun is the longest run of consecutive non-starters (after
// decomposition) the generators produce. Above 30, x/text's stream-safe
// normaliser departs from UAX #15 NFKD (known finding D3); the generators
// stay well below so that any mismatch they find is a new violation.
const maxRun = 30

// UniGen generates Unicode strings from the code points CPython knows.
type UniGen struct {
	u          *Uni
	decomp     []rune            // code points that change under NFKD
	marks      []rune            // non-starters that do not decompose
	cccs       []uint8           // distinct combining classes
	byCCC      map[uint8][]rune  // marks per class
	starters   []rune            // sample of inert starters (letters, digits, symbols)
	letters    []rune            // inert letters (category L*)
	spaceLike  []rune            // code points whose NFKD is exactly U+0020
	spaceMark  []rune            // code points whose NFKD is U+0020 followed by combining marks
	preimage   map[string][]rune // NFKD image -> single code points that decompose to it
	maxImage   int               // longest image in bytes
	hangulSyll []rune
}

var uniGenOnce sync.Once
var uniGen *UniGen

// Gen returns the (lazily built) generator.
func (e *Env) Gen() *UniGen {
	uniGenOnce.Do(func() {
		u := e.Uni()
		g := &UniGen{u: u, byCCC: map[uint8][]rune{}, preimage: map[string][]rune{}}
		for cp := rune(0); cp < 0x110000; cp++ {
			if !u.assigned[cp] {
				continue
			}
			cat := u.cat[cp]
			if cat == "Co" || cat == "Cc" || cat == "Cf" {
				continue // private use, controls and format characters add nothing
			}
			if d, ok := u.decomp[cp]; ok {
				g.decomp = append(g.decomp, cp)
				g.preimage[d] = append(g.preimage[d], cp)
				if len(d) > g.maxImage && len(d) <= 64 {
					g.maxImage = len(d)
				}
				if d == " " {
					g.spaceLike = append(g.spaceLike, cp)
				}
				if strings.HasPrefix(d, " ") && len(d) > 1 {
					// spacing forms of marks (U+00A8, U+00B4, U+309B, ...): NFKD is a space followed by marks
					g.spaceMark = append(g.spaceMark, cp)
				}
				if cp >= 0xAC00 && cp <= 0xD7A3 {
					g.hangulSyll = append(g.hangulSyll, cp)
				}
				continue
			}
			if c := u.ccc[cp]; c != 0 {
				g.marks = append(g.marks, cp)
				g.byCCC[c] = append(g.byCCC[c], cp)
				continue
			}
			if cat[0] == 'L' {
				g.letters = append(g.letters, cp)
			}
			if cat[0] == 'L' || cat[0] == 'N' || cat[0] == 'S' || cat[0] == 'P' {
				g.starters = append(g.starters, cp)
			}
		}
		for c := range g.byCCC {
			g.cccs = append(g.cccs, c)
		}
		sort.Slice(g.cccs, func(i, j int) bool { return g.cccs[i] < g.cccs[j] })
		uniGen = g
	})
	return uniGen
}

// builder appends runes while keeping non-starter runs (after
// decomposition) within maxRun.
type builder struct {
	g   *UniGen
	sb  strings.Builder
	run int
}

func (b *builder) add(r rune) {
	d, ok := b.g.u.decomp[r]
	if !ok {
		d = string(r)
	}
	// would this rune push the run over the limit?
	run := b.run
	over := false
	for _, q := range d {
		if b.g.u.ccc[q] != 0 {
			run++
			if run > maxRun {
				over = true
			}
		} else {
			run = 0
		}
	}
	if over {
		b.sb.WriteRune('a')
		run = 0
		for _, q := range d {
			if b.g.u.ccc[q] != 0 {
				run++
			} else {
				run = 0
			}
		}
		if run > maxRun { // a single code point with a huge mark run does not exist, but be safe
			return
		}
	}
	b.run = run
	b.sb.WriteRune(r)
}

func (b *builder) addString(s string) {
	for _, r := range s {
		b.add(r)
	}
}

func (b *builder) String() string { return b.sb.String() }

func (g *UniGen) pick(r *rng.R, l []rune) rune { return l[r.Intn(len(l))] }

// RandString returns a random string of n code points, 80 % of them drawn
// from the code points that decompose or are combining marks.
func (g *UniGen) RandString(r *rng.R, n int) string {
	b := &builder{g: g}
	for i := 0; i < n; i++ {
		switch k := r.Intn(10); {
		case k < 4:
			b.add(g.pick(r, g.decomp))
		case k < 8:
			b.add(g.pick(r, g.marks))
		case k < 9:
			b.add(g.pick(r, g.starters))
		default:
			b.add(rune(0x20 + r.Intn(0x5f)))
		}
	}
	return b.String()
}

// Reordering returns base followed by k marks of distinct combining classes
// in random (mostly non-canonical) order.
func (g *UniGen) Reordering(r *rng.R, k int) string {
	b := &builder{g: g}
	b.add(g.pick(r, g.letters))
	if k > maxRun {
		k = maxRun
	}
	for i := 0; i < k; i++ {
		c := g.cccs[r.Intn(len(g.cccs))]
		b.add(g.pick(r, g.byCCC[c]))
	}
	return b.String()
}

// Compat returns a string of n compatibility / decomposing characters.
func (g *UniGen) Compat(r *rng.R, n int) string {
	b := &builder{g: g}
	for i := 0; i < n; i++ {
		b.add(g.pick(r, g.decomp))
	}
	return b.String()
}

// Respell rewrites an NFKD string into an equivalent spelling by replacing
// substrings that are the NFKD image of a single code point with that code
// point (full-width letters, ligatures, precomposed letters, Hangul
// syllables, compatibility ideographs ...). With prob == den every possible
// position is replaced (greedy, longest image first). The result always has
// the same NFKD form as the input provided the input is in NFKD; the caller
// re-checks that with the oracle.
func (g *UniGen) Respell(r *rng.R, nfkd string, num, den int) (string, int) {
	var sb strings.Builder
	changed := 0
	for i := 0; i < len(nfkd); {
		done := false
		if r == nil || r.Intn(den) < num {
			max := g.maxImage
			if max > len(nfkd)-i {
				max = len(nfkd) - i
			}
			for l := max; l >= 1; l-- {
				if cps, ok := g.preimage[nfkd[i:i+l]]; ok {
					var cp rune
					if r == nil {
						cp = cps[0]
					} else {
						cp = cps[r.Intn(len(cps))]
					}
					sb.WriteRune(cp)
					i += l
					changed++
					done = true
					break
				}
			}
		}
		if !done {
			// copy one code point
			l := 1
			for i+l < len(nfkd) && nfkd[i+l]&0xC0 == 0x80 {
				l++
			}
			sb.WriteString(nfkd[i : i+l])
			i += l
		}
	}
	return sb.String(), changed
}

// Packed returns strings that together contain every code point of list l
// exactly once, per code points per string, separated by the starter sep so
// that neighbours cannot interact. Marks are preceded by a base letter.
func (g *UniGen) Packed(l []rune, per int, sep rune) []string {
	var out []string
	for i := 0; i < len(l); i += per {
		b := &builder{g: g}
		for j := i; j < i+per && j < len(l); j++ {
			if g.u.ccc[l[j]] != 0 {
				b.add('o')
			}
			b.add(l[j])
			b.add(sep)
		}
		out = append(out, b.String())
	}
	return out
}

// AllAssigned returns every assigned code point except controls, format
// characters and private use.
func (g *UniGen) AllAssigned() []rune {
	var out []rune
	for cp := rune(0x20); cp < 0x110000; cp++ {
		if !g.u.assigned[cp] {
			continue
		}
		switch g.u.cat[cp] {
		case "Co", "Cc", "Cf":
			continue
		}
		out = append(out, cp)
	}
	return out
}
