package main

import (
	"bufio"
	"encoding/hex"
	"fmt"
	"io"
	"os"
	"os/exec"
	"path/filepath"
	"strconv"
	"strings"
	"sync"
	"unicode/utf8"
)

// pyProc is one CPython co-process (tools/nfkd.py).
type pyProc struct {
	cmd *exec.Cmd
	in  io.WriteCloser
	out *bufio.Reader
}

// PyPool is a pool of co-processes: the independent normalisation oracle.
type PyPool struct {
	free  chan *pyProc
	all   []*pyProc
	Calls int64
	mu    sync.Mutex
}

func pythonPath() string {
	for _, p := range []string{"/usr/bin/python3", "/bin/python3"} {
		if _, err := os.Stat(p); err == nil {
			return p
		}
	}
	p, err := exec.LookPath("python3")
	if err != nil {
		fatalInconclusive("python3 not found")
	}
	return p
}

func startPy(script string) *pyProc {
	cmd := exec.Command(pythonPath(), "-S", script)
	cmd.Stderr = os.Stderr
	in, _ := cmd.StdinPipe()
	out, _ := cmd.StdoutPipe()
	if err := cmd.Start(); err != nil {
		fatalInconclusive("cannot start python co-process: %v", err)
	}
	return &pyProc{cmd: cmd, in: in, out: bufio.NewReaderSize(out, 1<<20)}
}

// Py returns the (lazily started) pool.
func (e *Env) Py() *PyPool {
	e.mu.Lock()
	defer e.mu.Unlock()
	if e.py == nil {
		n := 8
		p := &PyPool{free: make(chan *pyProc, n)}
		script := filepath.Join(e.Harness, "tools", "nfkd.py")
		for i := 0; i < n; i++ {
			pp := startPy(script)
			p.all = append(p.all, pp)
			p.free <- pp
		}
		e.py = p
	}
	return e.py
}

func (p *PyPool) Close() {
	for _, pp := range p.all {
		pp.in.Close()
		pp.cmd.Wait()
	}
}

func hexOrDash(s string) string {
	if s == "" {
		return "-"
	}
	return hex.EncodeToString([]byte(s))
}

// batch sends request lines and returns one reply line per request.
func (p *PyPool) batch(reqs []string) []string {
	pp := <-p.free
	defer func() { p.free <- pp }()
	go func() {
		bw := bufio.NewWriterSize(pp.in, 1<<16)
		for _, r := range reqs {
			bw.WriteString(r)
			bw.WriteByte('\n')
		}
		bw.WriteString("FLUSH\n")
		bw.Flush()
	}()
	out := make([]string, len(reqs))
	for i := range reqs {
		l, err := pp.out.ReadString('\n')
		if err != nil {
			fatalInconclusive("python co-process ended: %v", err)
		}
		out[i] = strings.TrimSpace(l)
	}
	if l, err := pp.out.ReadString('\n'); err != nil || strings.TrimSpace(l) != "ok" {
		fatalInconclusive("python co-process out of sync: %q %v", l, err)
	}
	p.mu.Lock()
	p.Calls += int64(len(reqs))
	p.mu.Unlock()
	return out
}

func decodeReply(r string) (string, bool) {
	if r == "!" {
		return "", false
	}
	if r == "-" {
		return "", true
	}
	b, err := hex.DecodeString(r)
	if err != nil {
		fatalInconclusive("python co-process: bad reply %q", r)
	}
	return string(b), true
}

// Normalize returns form(s) for every s; ok is false for invalid UTF-8.
func (p *PyPool) Normalize(form string, ss []string) (out []string, ok []bool) {
	reqs := make([]string, len(ss))
	for i, s := range ss {
		reqs[i] = "F " + form + " " + hexOrDash(s)
	}
	rep := p.batch(reqs)
	out = make([]string, len(ss))
	ok = make([]bool, len(ss))
	for i, r := range rep {
		out[i], ok[i] = decodeReply(r)
	}
	return
}

// Uni is the table of assigned code points as CPython sees them.
type Uni struct {
	Version  string
	assigned []bool
	ccc      []uint8
	decomp   map[rune]string // NFKD of code points that are not NFKD-inert
	cat      map[rune]string
	Assigned int
}

// Uni loads (or builds) the code point table.
func (e *Env) Uni() *Uni {
	e.mu.Lock()
	u := e.uni
	e.mu.Unlock()
	if u != nil {
		return u
	}
	py := e.Py()
	ver := py.batch([]string{"V"})[0]
	cache := filepath.Join(e.Verif, ".cache", "unitable-"+ver+".tsv")
	raw, err := os.ReadFile(cache)
	if err != nil || !strings.HasSuffix(string(raw), "\n.\n") {
		// build it
		pp := <-py.free
		io.WriteString(pp.in, "T\n")
		var sb strings.Builder
		for {
			l, err := pp.out.ReadString('\n')
			if err != nil {
				fatalInconclusive("python table: %v", err)
			}
			sb.WriteString(l)
			if l == ".\n" {
				break
			}
		}
		py.free <- pp
		raw = []byte(sb.String())
		os.MkdirAll(filepath.Dir(cache), 0755)
		tmp := cache + fmt.Sprintf(".%d.tmp", os.Getpid())
		if os.WriteFile(tmp, raw, 0644) == nil {
			os.Rename(tmp, cache)
		}
	}
	u = &Uni{Version: ver, assigned: make([]bool, 0x110000), ccc: make([]uint8, 0x110000), decomp: map[rune]string{}, cat: map[rune]string{}}
	for _, l := range strings.Split(string(raw), "\n") {
		f := strings.Fields(l)
		if len(f) != 4 {
			continue
		}
		cp64, _ := strconv.ParseUint(f[0], 16, 32)
		cp := rune(cp64)
		u.assigned[cp] = true
		u.Assigned++
		c, _ := strconv.Atoi(f[2])
		u.ccc[cp] = uint8(c)
		u.cat[cp] = f[1]
		if f[3] != "-" {
			b, _ := hex.DecodeString(f[3])
			u.decomp[cp] = string(b)
		}
	}
	if u.Assigned < 100000 {
		fatalInconclusive("code point table has only %d entries", u.Assigned)
	}
	e.mu.Lock()
	e.uni = u
	e.mu.Unlock()
	return u
}

func (u *Uni) IsAssigned(r rune) bool { return r >= 0 && r < 0x110000 && u.assigned[r] }
func (u *Uni) CCC(r rune) uint8       { return u.ccc[r] }
func (u *Uni) Cat(r rune) string      { return u.cat[r] }

// Decomp returns NFKD(r) and whether r changes under NFKD.
func (u *Uni) Decomp(r rune) (string, bool) {
	d, ok := u.decomp[r]
	return d, ok
}

// InDomain reports whether s is valid UTF-8 over assigned code points with no
// run of more than maxRun consecutive non-starters *after decomposition*: the
// domain in which CPython's NFKD is used as the oracle (see DESIGN §4, D3).
func (u *Uni) InDomain(s string, maxRun int) bool {
	if !utf8.ValidString(s) {
		return false
	}
	run := 0
	for _, r := range s {
		if !u.IsAssigned(r) {
			return false
		}
		d, ok := u.decomp[r]
		if !ok {
			d = string(r)
		}
		for _, q := range d {
			if u.ccc[q] != 0 {
				run++
				if run > maxRun {
					return false
				}
			} else {
				run = 0
			}
		}
	}
	return true
}

// Stable reports whether s is certainly its own NFKD form according to the
// table (the UAX #15 quick check for NFKD: no decomposable character and
// combining classes in canonical order). False means "ask the co-process".
func (u *Uni) Stable(s string) bool {
	var last uint8
	for i := 0; i < len(s); {
		c := s[i]
		if c < 0x80 {
			last = 0
			i++
			continue
		}
		r, sz := utf8.DecodeRuneInString(s[i:])
		if r == utf8.RuneError && sz <= 1 {
			return false
		}
		i += sz
		if !u.assigned[r] {
			return false
		}
		if _, dec := u.decomp[r]; dec {
			return false
		}
		cc := u.ccc[r]
		if cc != 0 && cc < last {
			return false
		}
		last = cc
	}
	return true
}

// NFKD returns the NFKD form of every string (table fast path, co-process
// otherwise); ok is false for invalid UTF-8.
func (e *Env) NFKD(ss []string) (out []string, ok []bool) {
	u := e.Uni()
	out = make([]string, len(ss))
	ok = make([]bool, len(ss))
	var ask []string
	var idx []int
	for i, s := range ss {
		if u.Stable(s) {
			out[i], ok[i] = s, true
		} else if !utf8.ValidString(s) {
			ok[i] = false
		} else {
			ask = append(ask, s)
			idx = append(idx, i)
		}
	}
	if len(ask) > 0 {
		o, k := e.Py().Normalize("NFKD", ask)
		for j, i := range idx {
			out[i], ok[i] = o[j], k[j]
		}
	}
	return
}

// NFKD1 normalises one string.
func (e *Env) NFKD1(s string) (string, bool) {
	o, k := e.NFKD([]string{s})
	return o[0], k[0]
}
