package main

import (
	"encoding/hex"
	"encoding/json"
	"fmt"
	"os"
	"os/exec"
	"path/filepath"
	"sort"
	"strconv"
	"strings"
	"sync"
	"time"

	"aaverif/internal/plan"
	"aaverif/internal/ref"
)

// exitInconclusive is the exit code of a run that could not observe what it
// has to observe (harness trouble). It never comes with a VIOLATION line.
const exitInconclusive = 2

// Env is the per-run context.
type Env struct {
	Prop     string
	Tier     string // quick | thorough
	Seed     uint64
	Verif    string // /verif
	Harness  string // /verif/harness
	Repo     string // tree under monitoring (default /repo)
	Scratch  string // per-run scratch directory, removed at exit
	Model    *ref.Model
	Workers  int
	Start    time.Time
	mu       sync.Mutex
	viol     []*Violation
	known    []string
	findings []Finding
	drv      map[string]string
	uni      *Uni
	py       *PyPool
	modfile  string
}

func (e *Env) Thorough() bool { return e.Tier == "thorough" }

// pick returns q in the quick tier and t in the thorough tier.
func (e *Env) pick(q, t int) int {
	if e.Thorough() {
		return t
	}
	return q
}

func fatalInconclusive(format string, a ...any) {
	fmt.Fprintf(os.Stderr, "INCONCLUSIVE: "+format+"\n", a...)
	if cleanup != nil {
		cleanup()
	}
	os.Exit(exitInconclusive)
}

var cleanup func()

func goEnv() []string {
	env := os.Environ()
	env = append(env, "GOFLAGS=-mod=mod", "GOPROXY=off", "GOSUMDB=off", "GOTOOLCHAIN=local", "CGO_ENABLED=1")
	return env
}

// modfileArgs returns the -modfile argument needed to point the harness
// module at a tree other than /repo.
func (e *Env) modfileArgs() []string {
	if e.Repo == "/repo" {
		return nil
	}
	if e.modfile == "" {
		raw, err := os.ReadFile(filepath.Join(e.Harness, "go.mod"))
		if err != nil {
			fatalInconclusive("read go.mod: %v", err)
		}
		s := strings.Replace(string(raw), "=> /repo", "=> "+e.Repo, 1)
		e.modfile = filepath.Join(e.Scratch, "alt.mod")
		os.WriteFile(e.modfile, []byte(s), 0644)
		sum, _ := os.ReadFile(filepath.Join(e.Harness, "go.sum"))
		os.WriteFile(filepath.Join(e.Scratch, "alt.sum"), sum, 0644)
	}
	return []string{"-modfile=" + e.modfile}
}

// BuildDrv builds the child from the monitored tree (hooks on). Every check
// calls it, so the binary always reflects the current working tree.
func (e *Env) BuildDrv(race bool) string {
	key := "plain"
	if race {
		key = "race"
	}
	e.mu.Lock()
	if p, ok := e.drv[key]; ok {
		e.mu.Unlock()
		return p
	}
	e.mu.Unlock()
	out := filepath.Join(e.Scratch, "drv-"+key)
	args := []string{"build", "-tags", "verif"}
	args = append(args, e.modfileArgs()...)
	if race {
		args = append(args, "-race")
	}
	args = append(args, "-o", out, "./cmd/drv")
	cmd := exec.Command("go", args...)
	cmd.Dir = e.Harness
	cmd.Env = goEnv()
	if b, err := cmd.CombinedOutput(); err != nil {
		// A tree that does not compile cannot be monitored; it is not a
		// property violation.
		fatalInconclusive("building drv from %s failed: %v\n%s", e.Repo, err, b)
	}
	e.mu.Lock()
	e.drv[key] = out
	e.mu.Unlock()
	return out
}

// Violation is one firing of a monitor.
type Violation struct {
	Property string     `json:"property"`
	What     string     `json:"what"`
	Key      string     `json:"key,omitempty"` // identifies the failing input for KNOWN_FINDINGS matching
	Mode     string     `json:"mode,omitempty"`
	ChildEnv []string   `json:"child_env,omitempty"`
	Race     bool       `json:"race,omitempty"`
	Ops      []plan.Op  `json:"ops,omitempty"`
	Conc     *plan.Conc `json:"conc,omitempty"`
	Expected any        `json:"expected,omitempty"`
	Observed any        `json:"observed,omitempty"`
	Detail   any        `json:"detail,omitempty"`
	Seed     uint64     `json:"seed"`
	Tier     string     `json:"tier"`
	Path     string     `json:"-"`
}

const maxViolations = 25

// Violate records a violation, writes its replay file and prints the
// VIOLATION line. Only the first maxViolations are written out.
func (e *Env) Violate(v *Violation) {
	e.mu.Lock()
	defer e.mu.Unlock()
	v.Property, v.Seed, v.Tier = e.Prop, e.Seed, e.Tier
	if v.ChildEnv == nil {
		// runtime settings the observing child announced
		switch o := v.Observed.(type) {
		case *plan.Res:
			if o != nil && o.Env != "" {
				v.ChildEnv = strings.Fields(o.Env)
			}
		case plan.Res:
			if o.Env != "" {
				v.ChildEnv = strings.Fields(o.Env)
			}
		}
	}
	e.viol = append(e.viol, v)
	if len(e.viol) > maxViolations {
		return
	}
	dir := filepath.Join(e.Verif, "replays")
	os.MkdirAll(dir, 0755)
	v.Path = filepath.Join(dir, fmt.Sprintf("%s-%s-seed%d-%03d.json", e.Prop, e.Tier, e.Seed, len(e.viol)))
	b, _ := json.MarshalIndent(v, "", " ")
	os.WriteFile(v.Path, b, 0644)
	fmt.Printf("VIOLATION property=%s replay=%s\n", e.Prop, v.Path)
	fmt.Printf("  %s\n", oneLine(v.What, 400))
}

func (e *Env) Violations() int {
	e.mu.Lock()
	defer e.mu.Unlock()
	return len(e.viol)
}

func oneLine(s string, max int) string {
	s = strings.ReplaceAll(s, "\n", " | ")
	if len(s) > max {
		s = s[:max] + "…"
	}
	return s
}

// Evidence ------------------------------------------------------------------

type evidence struct {
	PropertyID  string         `json:"property_id"`
	Tier        string         `json:"tier"`
	Seed        int64          `json:"seed"`
	Level       string         `json:"level"`
	Coverage    map[string]any `json:"coverage"`
	Assumptions []string       `json:"assumptions"`
	WallS       float64        `json:"wall_s"`
	Violations  int            `json:"violations"`
}

// WriteEvidence writes /verif/evidence/<id>.json. The coverage map must hold
// evaluations, distinct_nontrivial, rule and samples, all measured by the run.
func (e *Env) WriteEvidence(level string, cov map[string]any, assumptions []string) {
	for _, k := range []string{"evaluations", "distinct_nontrivial", "rule", "samples"} {
		if _, ok := cov[k]; !ok {
			fatalInconclusive("evidence for %s lacks %s", e.Prop, k)
		}
	}
	if e.known == nil {
		e.known = []string{}
	}
	cov["known_findings_reported"] = e.known
	ev := evidence{
		PropertyID: e.Prop, Tier: e.Tier, Seed: int64(e.Seed), Level: level, Coverage: cov,
		Assumptions: assumptions, WallS: time.Since(e.Start).Seconds(), Violations: e.Violations(),
	}
	dir := e.evidenceDir()
	os.MkdirAll(dir, 0755)
	b, err := json.MarshalIndent(ev, "", " ")
	if err != nil {
		fatalInconclusive("evidence: %v", err)
	}
	tmp := filepath.Join(dir, "."+e.Prop+".json.tmp")
	if err := os.WriteFile(tmp, append(b, '\n'), 0644); err != nil {
		fatalInconclusive("evidence: %v", err)
	}
	os.Rename(tmp, filepath.Join(dir, e.Prop+".json"))
}

// evidenceDir is /verif/evidence for runs against /repo; runs pointed at another tree with
// VERIF_REPO (mutants, seeded changes) write elsewhere so that they never replace the evidence
// of the real tree.
func (e *Env) evidenceDir() string {
	if e.Repo != "/repo" {
		return filepath.Join(e.Verif, "evidence-scratch")
	}
	return filepath.Join(e.Verif, "evidence")
}

// distinct counts distinct keys cheaply (64-bit FNV-1a of the key; a collision
// can only make the count smaller, i.e. conservative).
type distinct struct {
	mu sync.Mutex
	m  map[uint64]struct{}
}

func newDistinct() *distinct { return &distinct{m: map[uint64]struct{}{}} }

func fnv(parts ...string) uint64 {
	h := uint64(14695981039346656037)
	for _, p := range parts {
		for i := 0; i < len(p); i++ {
			h ^= uint64(p[i])
			h *= 1099511628211
		}
		h ^= 0xff
		h *= 1099511628211
	}
	return h
}

func (d *distinct) Add(parts ...string) {
	k := fnv(parts...)
	d.mu.Lock()
	d.m[k] = struct{}{}
	d.mu.Unlock()
}

func (d *distinct) Len() int {
	d.mu.Lock()
	defer d.mu.Unlock()
	return len(d.m)
}

// counter is a concurrent string→count table for coverage matrices.
type counter struct {
	mu sync.Mutex
	m  map[string]int
}

func newCounter() *counter { return &counter{m: map[string]int{}} }

func (c *counter) Inc(k string) { c.Add(k, 1) }

func (c *counter) Add(k string, n int) {
	c.mu.Lock()
	c.m[k] += n
	c.mu.Unlock()
}

func (c *counter) Total() int {
	c.mu.Lock()
	defer c.mu.Unlock()
	n := 0
	for _, v := range c.m {
		n += v
	}
	return n
}

func (c *counter) Get(k string) int {
	c.mu.Lock()
	defer c.mu.Unlock()
	return c.m[k]
}

func (c *counter) Map() map[string]int {
	c.mu.Lock()
	defer c.mu.Unlock()
	out := make(map[string]int, len(c.m))
	for k, v := range c.m {
		out[k] = v
	}
	return out
}

func (c *counter) Keys() []string {
	m := c.Map()
	ks := make([]string, 0, len(m))
	for k := range m {
		ks = append(ks, k)
	}
	sort.Strings(ks)
	return ks
}

// samples keeps the first few cases of a run for the evidence file.
type samples struct {
	mu  sync.Mutex
	max int
	l   []any
}

func newSamples(max int) *samples { return &samples{max: max} }

func (s *samples) Add(v any) {
	s.mu.Lock()
	if len(s.l) < s.max {
		s.l = append(s.l, v)
	}
	s.mu.Unlock()
}

func (s *samples) List() []any {
	s.mu.Lock()
	defer s.mu.Unlock()
	return append([]any(nil), s.l...)
}

// small helpers ---------------------------------------------------------------

func hx(b []byte) string  { return hex.EncodeToString(b) }
func hxs(s string) string { return hex.EncodeToString([]byte(s)) }

func unhex(s string) []byte {
	b, err := hex.DecodeString(s)
	if err != nil {
		panic(err)
	}
	return b
}

func itoa(i int) string { return strconv.Itoa(i) }

// preview renders a possibly long / non-UTF-8 string for humans.
func preview(s string) string {
	if len(s) > 200 {
		return strconv.QuoteToASCII(s[:200]) + fmt.Sprintf("…(%d bytes)", len(s))
	}
	return strconv.QuoteToASCII(s)
}
