package main

import (
	"crypto/sha256"
	"fmt"
	"strings"

	"aaverif/internal/plan"
	"aaverif/internal/ref"
	"aaverif/internal/rng"
)

func init() { register("C04", checkC04) }

type seedCase struct {
	m, p  string
	mSegs []plan.Seg
	pSegs []plan.Seg
	class string
	fresh bool // run as seed2 (freshness observation)
}

func (c *seedCase) M() string {
	if c.mSegs != nil {
		return string(plan.Expand(c.mSegs))
	}
	return c.m
}

func (c *seedCase) P() string {
	if c.pSegs != nil {
		return string(plan.Expand(c.pSegs))
	}
	return c.p
}

func (c *seedCase) op() plan.Op {
	fn := "seed"
	if c.fresh {
		fn = "seed2"
	}
	o := plan.Op{Fn: fn}
	if c.mSegs != nil {
		o.SSegs = c.mSegs
	} else {
		o.S = hxs(c.m)
	}
	if c.pSegs != nil {
		o.PSegs = c.pSegs
	} else {
		o.P = hxs(c.p)
	}
	return o
}

// seedCorpus emits the C04 workload.
func (e *Env) seedCorpus(emit func(seedCase)) {
	g := e.Gen()
	m := e.Model
	r := rng.New(e.Seed, "C04")
	em := func(mm, pp, class string) { emit(seedCase{m: mm, p: pp, class: class, fresh: r.Intn(8) == 0}) }

	em("", "", "empty")
	em("", "x", "empty-mnemonic")
	em("x", "", "empty-passphrase")
	em("abandon abandon abandon abandon abandon abandon abandon abandon abandon abandon abandon about", "TREZOR", "published-vector")
	// valid mnemonics of every language and size; invalid ones (never validated)
	reps := e.pick(2, 40)
	for lang := 0; lang < ref.NLang; lang++ {
		for _, size := range ref.EntSizes {
			for k := 0; k < reps; k++ {
				s := m.Enc(r.Bytes(size), lang)
				pp := []string{"", "TREZOR", g.RandString(r, 1+r.Intn(12))}[k%3]
				em(s, pp, "valid-mnemonic")
				w := strings.Fields(s)
				w[r.Intn(len(w))] = "notaword"
				em(strings.Join(w, " "), pp, "invalid-mnemonic-unknown-word")
				em(strings.Join(w[:len(w)-1], " "), pp, "invalid-mnemonic-count")
				em(strings.ToUpper(s)+" ", pp, "invalid-mnemonic-case-space")
			}
		}
	}
	// lengths around the HMAC block size, for each argument
	units := []string{"a", "\u00e9", "\uff76", "e\u0301", "\ufdfa", "\ud55c"}
	lens := []int{1, 63, 64, 65, 127, 128, 129, 255, 256, 257, 1000, 4096}
	if e.Thorough() {
		lens = append(lens, 65536, 1<<20)
	} else {
		lens = append(lens, 65536)
	}
	for ui, u := range units {
		for _, n := range lens {
			if len(u)*n > 4<<20 || (ui > 1 && n > 4096 && !e.Thorough()) {
				continue
			}
			segs := []plan.Seg{{H: hxs(u), R: n}}
			emit(seedCase{mSegs: segs, p: "pw", class: "long-mnemonic"})
			emit(seedCase{m: "m", pSegs: segs, class: "long-passphrase"})
			if n <= 4096 {
				emit(seedCase{mSegs: segs, pSegs: segs, class: "long-both"})
			}
		}
	}
	// byte lengths exactly around 128 after normalisation (ASCII, so length is exact)
	for n := 120; n <= 136; n++ {
		em(strings.Repeat("k", n), "s", "block-boundary")
		em("k", strings.Repeat("s", n-8), "block-boundary-salt")
	}
	// the four normal forms of accent-bearing sentences, as mnemonic and as passphrase
	py := e.Py()
	nf := e.pick(30, 600)
	for k := 0; k < nf; k++ {
		lang := []int{3, 5, 6, 7, 8, 9}[k%6] // French, Japanese, Korean, Spanish, Czech, Portuguese
		s := m.Enc(r.Bytes(ref.EntSizes[k%5]), lang)
		forms := []string{"NFC", "NFD", "NFKC", "NFKD"}
		for _, f := range forms {
			o, _ := py.Normalize(f, []string{s})
			em(o[0], "TREZOR", "normal-form-"+f+"-mnemonic")
			em("legal winner thank year wave sausage worth useful legal winner thank yellow", o[0], "normal-form-"+f+"-passphrase")
		}
	}
	// every code point that decomposes and every combining mark, each exactly once
	// (16 per string, separated by a starter), as mnemonic and as passphrase; in the
	// thorough tier every assigned code point
	sweep := append(append([]rune(nil), g.decomp...), g.marks...)
	if e.Thorough() {
		sweep = g.AllAssigned()
	}
	for _, s := range g.Packed(sweep, 16, 'x') {
		emit(seedCase{m: s, p: "pw", class: "code-point-sweep-mnemonic"})
		emit(seedCase{m: "m", p: s, class: "code-point-sweep-passphrase"})
	}
	// code points that string-scanning code tends to treat specially (the replacement character
	// — which `range` also yields for ill-formed input —, BOM, noncharacters, the ends of the
	// planes, DEL, C1 controls), next to text that NFKD changes: they are ordinary valid input
	for _, sp := range []string{"\ufffd", "\ufeff", "\ufffe", "\uffff", "\U0010ffff", "\U0001fffe", "\ud7ff", "\ue000", "\x7f", "\u0080", "\u009f", "\x00", "\u2028", "\ufff9", "\U000e0001"} {
		for _, dec := range []string{"\u00e9", "\uff41", "\u3000", "\ufb03", "\uac00", "e\u0323\u0301"} {
			em("abandon "+sp+" ability "+dec, "pw", "special-code-point-next-to-decomposable-text")
			em("abandon ability", dec+sp, "special-code-point-next-to-decomposable-text")
			em(dec+sp+dec, sp+dec, "special-code-point-next-to-decomposable-text")
		}
	}
	// a combining sequence whose marks are not in canonical order, placed across the sizes at
	// which code tends to cut its input into windows or buffers: normalisation must see the
	// whole sequence
	for _, B := range []int{16, 32, 64, 128, 256, 512, 1024, 4096, 8192, 65536} {
		for off := -5; off <= 1; off++ {
			if B+off < 0 {
				continue
			}
			s := strings.Repeat("x", B+off) + "a\u0301\u0323" + "tail e\u0323\u0302\u0301"
			em(s, "pw", "unordered-marks-across-a-buffer-size-boundary")
			if B <= 8192 {
				em("m", s[8:], "unordered-marks-across-a-buffer-size-boundary")
			}
		}
	}
	// white space and invisible characters are part of the input: nothing may be trimmed,
	// collapsed, case-folded or removed
	for _, w := range []string{" ", "  ", "\t", "\n", "\r\n", "\u3000", "\u00a0", "\u200b", "\u200d", "\ufeff", "\u00ad", "\u2028", "\x00", "\u034f"} {
		base := "legal winner thank year wave sausage worth useful legal winner thank yellow"
		for _, v := range []string{w + base, base + w, strings.Replace(base, " ", " "+w, 1), strings.Replace(base, "winner", "win"+w+"ner", 1), w} {
			em(v, "TREZOR", "white-space-or-invisible-in-mnemonic")
			em(base, v, "white-space-or-invisible-in-passphrase")
		}
	}
	em("Legal Winner THANK year", "PassWord", "mixed-case")
	em("legal winner thank year", "password", "mixed-case")
	// every byte length 0..300 for either argument (ASCII, so the length is exact)
	for n := 0; n <= 300; n++ {
		emit(seedCase{m: strings.Repeat("z", n), p: "q", class: "every-length-mnemonic"})
		emit(seedCase{m: "z", p: strings.Repeat("q", n), class: "every-length-passphrase"})
	}
	// every length 1..150 in code points for multi-byte units, in either position, also
	// against an empty other argument
	for _, u := range []string{"\u00e9", "\ud55c", "\U0001f600", "\u3042\u3099"} {
		for n := 1; n <= 150; n++ {
			if n > 40 && n%3 != 0 && !e.Thorough() {
				continue
			}
			s := strings.Repeat(u, n)
			emit(seedCase{m: "m", p: s, class: "every-length-multibyte-passphrase"})
			emit(seedCase{m: s, p: "", class: "every-length-multibyte-mnemonic-empty-passphrase"})
			if n%5 == 0 {
				emit(seedCase{m: "", p: s, class: "empty-mnemonic-multibyte-passphrase"})
			}
		}
	}
	for k := 0; k < e.pick(100, 2000); k++ {
		em(g.RandString(r, 1+r.Intn(30)), "", "random-mnemonic-empty-passphrase")
		em("", g.RandString(r, 1+r.Intn(30)), "empty-mnemonic-random-passphrase")
	}
	// ASCII prefix / suffix of every length around a character that NFKD changes
	for k := 0; k <= 40; k++ {
		c := string(g.pick(r, g.decomp))
		pre, suf := strings.Repeat("a", k), strings.Repeat("b", r.Intn(20))
		em(pre+c+suf, "ascii-only", "ascii-prefix-then-compat-mnemonic")
		em("ascii only words", pre+c+suf, "ascii-prefix-then-compat-passphrase")
		em(pre+c, pre+c, "ascii-prefix-then-compat-both")
	}
	// compatibility characters, reordering marks, leading marks, Hangul, random
	n := e.pick(600, 20000)
	for k := 0; k < n; k++ {
		em(g.Compat(r, 1+r.Intn(10)), g.Compat(r, r.Intn(10)), "compatibility")
		em(g.Reordering(r, 2+r.Intn(8)), g.Reordering(r, 2+r.Intn(8)), "reordering-marks")
		if k%4 == 0 { // runs up to the stream-safe limit of 30 non-starters (31 and more is finding D3)
			em(g.Reordering(r, 18+r.Intn(13)), g.Reordering(r, 18+r.Intn(13)), "long-mark-run")
		}
		lead := &builder{g: g}
		for i := 0; i <= r.Intn(6); i++ {
			lead.add(g.pick(r, g.marks))
		}
		lead.addString(g.RandString(r, r.Intn(6)))
		em(m.Enc(r.Bytes(16), r.Intn(ref.NLang)), lead.String(), "passphrase-begins-with-marks")
		em(lead.String(), "x", "mnemonic-begins-with-marks")
		hb := &builder{g: g}
		for i := 0; i <= r.Intn(8); i++ {
			if r.Intn(2) == 0 {
				hb.add(g.pick(r, g.hangulSyll))
			} else {
				hb.add(rune(0x1100 + r.Intn(19)))
				hb.add(rune(0x1161 + r.Intn(21)))
				if r.Intn(2) == 0 {
					hb.add(rune(0x11A8 + r.Intn(27)))
				}
			}
		}
		em(hb.String(), hb.String(), "hangul")
		em(g.RandString(r, 1+r.Intn(40)), g.RandString(r, r.Intn(40)), "random")
	}
	for _, s := range []string{"\ufdfa", "\u334d\u30ac\u30d0\u30f4\u30a1\u3071\u3070\u3050\u309e\u3061\u3062\u5341\u4eba\u5341\u8272", "\ufb03", "\uff21\u2460\u3231", "\u01c6", "\u1f82", "\u0344", "\u0f73\u0f75\u0f81\u0f71\u0f72", "\u1e9b\u0323", "\u01c4\u0323\u030c", "\u0958\u09dc\u0a33\u0b5c"} {
		em(s, s, "notable-compatibility")
		em("a"+s, "b"+s, "notable-compatibility")
	}
}

func checkC04(e *Env) {
	drv := e.BuildDrv(false)
	classes := newCounter()
	dist := newDistinct()
	smp := newSamples(8)
	stat := newCounter()

	judge := func(c *seedCase, it *Item, r *plan.Res) (mismatch bool, got, want string) {
		mm, pp := c.M(), c.P()
		n, ok := e.NFKD([]string{mm, pp})
		if !ok[0] || !ok[1] {
			stat.Inc("skipped_invalid_utf8")
			return false, "", ""
		}
		w := hx(ref.Seed([]byte(n[0]), []byte(n[1])))
		if n[0] != mm {
			stat.Inc("nfkd_changed_mnemonic")
		}
		if n[1] != pp {
			stat.Inc("nfkd_changed_passphrase")
		}
		if len(n[0]) > 128 {
			stat.Inc("password_longer_than_hmac_block")
		}
		return r.Out != w, r.Out, w
	}

	stats := e.RunStream(StreamOpts{Drv: drv, Window: 64}, func(emit func(*Item)) {
		e.seedCorpus(func(c seedCase) {
			if !e.Uni().InDomain(c.M(), maxRun) || !e.Uni().InDomain(c.P(), maxRun) {
				stat.Inc("generator_cases_outside_oracle_domain_dropped")
				return
			}
			cc := c
			emit(&Item{Op: c.op(), Exp: &cc})
		})
	}, func(it *Item, r *plan.Res) {
		c := it.Exp.(*seedCase)
		classes.Inc(c.class)
		if f := failure(r); f != "" {
			e.Violate(&Violation{What: "MnemonicToSeed did not return normally: " + f, Ops: []plan.Op{it.Op}, Observed: r})
			return
		}
		bad, got, want := judge(c, it, r)
		if bad {
			e.Violate(&Violation{What: fmt.Sprintf("MnemonicToSeed(%s, %s) = %s (%d bytes), PBKDF2-HMAC-SHA512 over the NFKD forms gives %s (class %s)", preview(c.M()), preview(c.P()), got, len(got)/2, want, c.class),
				Ops: []plan.Op{it.Op}, Expected: map[string]string{"out_hex": want}, Observed: r})
			return
		}
		if len(r.Out) != 128 {
			e.Violate(&Violation{What: fmt.Sprintf("MnemonicToSeed returned %d bytes", len(r.Out)/2), Ops: []plan.Op{it.Op}, Observed: r})
			return
		}
		if c.fresh {
			stat.Inc("freshness_pairs")
			switch {
			case r.Out2 != r.Out:
				e.Violate(&Violation{What: fmt.Sprintf("two calls with the same arguments returned different seeds: %s vs %s", r.Out, r.Out2), Ops: []plan.Op{it.Op}, Observed: r})
				return
			case r.Out1b != r.Out:
				e.Violate(&Violation{What: "a previously returned seed changed after the caller overwrote a later result and the garbage collector (with finalizers) ran: the returned slice is not fresh", Ops: []plan.Op{it.Op}, Observed: r})
				return
			case r.Out3 != r.Out:
				e.Violate(&Violation{What: fmt.Sprintf("after the caller overwrote a returned seed, the next call with the same arguments returned %s instead of %s: results are served from memory the caller can reach", r.Out3, r.Out), Ops: []plan.Op{it.Op}, Observed: r})
				return
			case r.Alias:
				e.Violate(&Violation{What: "two returned seeds share memory: the returned slice is not fresh", Ops: []plan.Op{it.Op}, Observed: r})
				return
			}
		}
		dist.Add(c.M(), "\x00", c.P())
		if c.mSegs == nil && c.pSegs == nil {
			smp.Add(map[string]any{"class": c.class, "mnemonic": preview(c.m), "passphrase": preview(c.p), "seed": r.Out})
		}
	})

	// histories in one process: identical arguments, almost identical ones, and the same
	// concatenation split at another place — a memo keyed imperfectly would answer from memory
	nh := e.pick(24, 300)
	parallel(nh, e.Workers, func(h int) {
		g := &seqGen{e: e, r: rng.New(e.Seed, "C04-hist-"+itoa(h)), bufs: map[int][]byte{}}
		if h%6 == 5 {
			// many distinct pairs that need normalising, then the same ones again (bounded caches)
			g.cacheWrap(3, []int{40, 150}[(h/6)%2])
		} else {
			g.memoHunt(3)
		}
		// odd histories hold the seed calls only, even ones also the other functions' calls
		// (validations that fail in every way, generators) in between
		var ops []plan.Op
		for _, op := range g.ops {
			if op.Fn == "seed" || h%2 == 0 {
				op.I, op.Keep = len(ops), false
				ops = append(ops, op)
			}
		}
		res, died := e.RunProc(drv, ops, nil, 0)
		if died != "" {
			if culprit := ops[min(len(res), len(ops)-1)]; culprit.Fn != "seed" {
				return // another function's crash: not this property's subject
			}
			e.Violate(&Violation{What: "MnemonicToSeed killed the process in a sequence of calls: " + oneLine(died, 300), Ops: ops[:min(len(res)+1, len(ops))]})
			return
		}
		for i := range res {
			if ops[i].Fn != "seed" {
				continue
			}
			want, ok := e.RefSeed(ops[i].Str(), ops[i].Pass())
			if !ok || res[i].Panic != "" {
				continue
			}
			stat.Inc("seeds_inside_histories")
			if res[i].Out != hx(want) {
				e.Violate(&Violation{What: fmt.Sprintf("after earlier calls in the same process MnemonicToSeed(%s, %s) = %s, expected %x: the result depends on the history", preview(ops[i].Str()), preview(ops[i].Pass()), res[i].Out, want),
					Ops: ops[:i+1], Expected: map[string]string{"out_hex": hx(want)}, Observed: res[i], Detail: "the failing call is the last of ops; the preceding ones are its history"})
				return
			}
		}
	})

	// a long-lived process: thousands of derivations whose results the caller keeps; at the end
	// every kept seed must still read as it did when it was returned (a pool or arena of result
	// buffers that wraps hands the same memory out twice), and every 16th is compared with the
	// reference
	longRuns, longN := e.pick(1, 3), e.pick(1400, 20000)
	parallel(longRuns, e.Workers, func(h int) {
		r := rng.New(e.Seed, "C04-long-"+itoa(h))
		var ops []plan.Op
		for i := 0; i < longN; i++ {
			ops = append(ops, plan.Op{I: i, Fn: "seed", S: hxs("m" + itoa(i) + "\u00e9"), P: hxs([]string{"", "p", "\uff50" + itoa(r.Intn(1000))}[i%3]), Keep: true})
		}
		ops = append(ops, plan.Op{I: len(ops), Fn: "keepdump"})
		res, died := e.RunProc(drv, ops, nil, 0)
		if died != "" || len(res) != len(ops) {
			e.Violate(&Violation{What: fmt.Sprintf("MnemonicToSeed killed the process in a run of %d derivations: %s", longN, oneLine(died, 300)), Ops: ops[:min(len(res)+1, len(ops))]})
			return
		}
		for _, inf := range res[len(res)-1].Info {
			k := strings.IndexByte(inf, ':')
			var i int
			if k < 0 || strings.HasPrefix(inf, "buf") || strings.HasPrefix(inf, "err") {
				continue
			}
			if n, _ := fmt.Sscanf(inf[:k], "%d", &i); n != 1 || i < 0 || i >= longN || res[i].Panic != "" {
				continue
			}
			stat.Inc("seeds_kept_and_read_again_at_the_end_of_a_long_run")
			d := sha256.Sum256(unhex(res[i].Out))
			if hx(d[:]) != inf[k+1:] {
				e.Violate(&Violation{What: fmt.Sprintf("the seed returned by derivation %d of %d in one process reads differently at the end of the process: a later call wrote into it, the returned slice was not fresh", i, longN),
					Ops: ops, Observed: res[i], Detail: "the child keeps every returned seed and digests it again after the last call"})
				return
			}
		}
		for i := 0; i < longN; i += 16 {
			if want, ok := e.RefSeed(ops[i].Str(), ops[i].Pass()); ok && res[i].Panic == "" && res[i].Out != hx(want) {
				e.Violate(&Violation{What: fmt.Sprintf("derivation %d of a long run in one process: MnemonicToSeed(%s, %s) = %s, expected %x", i, preview(ops[i].Str()), preview(ops[i].Pass()), res[i].Out, want),
					Ops: ops[:i+1], Expected: map[string]string{"out_hex": hx(want)}, Observed: res[i], Detail: "the failing call is the last of ops; the preceding ones are its history"})
				return
			}
		}
	})

	// identity is not equality: the mnemonic of one derivation becomes garbage and another
	// mnemonic of the same byte length takes over its address
	reusePairs, reuseHits := e.addressReuse(drv, "C04", e.pick(3, 16), 40, func(r *rng.R, k int) (plan.Op, plan.Op, bool) {
		lang := r.Intn(ref.NLang)
		w := e.Model.Words(r.Bytes(ref.EntSizes[r.Intn(5)]), lang)
		sw := append([]string(nil), w...)
		i, j := r.Intn(len(w)), r.Intn(len(w))
		sw[i], sw[j] = sw[j], sw[i]
		a, b := strings.Join(w, "\u3000"), strings.Join(sw, "\u3000")
		if a == b {
			return plan.Op{}, plan.Op{}, false
		}
		return plan.Op{Fn: "seed", S: hxs(a), P: hxs("\uff50")}, plan.Op{Fn: "seed", S: hxs(b), P: hxs("\uff50")}, true
	}, func(ops []plan.Op, i int, r *plan.Res, reused bool) {
		if want, ok := e.RefSeed(ops[i].Str(), ops[i].Pass()); ok && r.Out != hx(want) {
			e.Violate(&Violation{What: fmt.Sprintf("MnemonicToSeed(%s, %s) = %s, expected %x, when the mnemonic took over the memory of the previous call's mnemonic of the same byte length (address reused: %v)", preview(ops[i].Str()), preview(ops[i].Pass()), r.Out, want, reused),
				Ops: ops[:i+1], ChildEnv: []string{"GOMAXPROCS=1"}, Expected: map[string]string{"out_hex": hx(want)}, Observed: r, Detail: "the failing call is the last of ops; the preceding ones are its history"})
		}
	})
	stat.Add("seed_pairs_at_a_reused_address(of "+itoa(reusePairs)+")", reuseHits)
	// the concurrent flavour of this monitor (C12 is the full treatment)
	concCalls := e.concurrentSmoke(drv, "C04", e.smokePool("C04", "seed"), e.pick(2, 12), e.pick(25, 100), e.smokeSeedRef())

	// known-finding witnesses (D3): exact inputs listed in KNOWN_FINDINGS.txt
	for _, f := range e.KnownKeys() {
		kv := parseKey(f.Key)
		mm, pp := string(unhex(kv["m"])), string(unhex(kv["p"]))
		res, died := e.RunProc(drv, []plan.Op{{Fn: "seed", S: kv["m"], P: kv["p"]}}, nil, 0)
		if died != "" || len(res) != 1 {
			e.Violate(&Violation{What: "MnemonicToSeed did not return normally on a listed witness: " + died, Ops: []plan.Op{{Fn: "seed", S: kv["m"], P: kv["p"]}}})
			continue
		}
		want, ok := e.RefSeed(mm, pp)
		stat.Inc("known_witnesses_run")
		switch {
		case !ok:
			fatalInconclusive("known-finding witness is not valid UTF-8")
		case res[0].Out == hx(want):
			stat.Inc("known_witnesses_no_longer_failing")
		case strings.HasPrefix(res[0].Out, kv["seed"]) && kv["seed"] != "":
			e.ReportKnown(f, "observed "+res[0].Out+" expected "+hx(want))
		default:
			e.Violate(&Violation{What: fmt.Sprintf("MnemonicToSeed on listed witness %s returns %s: neither the standard value %x nor the value recorded for the known finding (%s...)", f.Key, res[0].Out, want, kv["seed"]),
				Ops: []plan.Op{{Fn: "seed", S: kv["m"], P: kv["p"]}}, Expected: map[string]string{"out_hex": hx(want)}, Observed: res[0]})
		}
	}

	if e.Violations() == 0 && stat.Get("nfkd_changed_passphrase") == 0 {
		fatalInconclusive("C04: no case in which NFKD changes the passphrase was explored")
	}
	e.WriteEvidence("exploration", map[string]any{
		"evaluations":                      stats.Ops,
		"distinct_nontrivial":              dist.Len(),
		"calls_repeated_under_concurrency": concCalls,
		"rule":                             "a case is a pair (mnemonic, passphrase) of valid-UTF-8 strings over CPython-assigned code points with non-starter runs <= 25: empty/ASCII, valid and invalid mnemonics of all ten languages, lengths around and far beyond the 128-byte HMAC block for either argument, NFC/NFD/NFKC/NFKD spellings, compatibility characters, mark sequences in non-canonical order, arguments beginning with combining marks, Hangul syllables/jamo, seeded random strings (80 % decomposing or combining code points); every case is compared with PBKDF2 written out over crypto/hmac with CPython's NFKD; histories in one process (identical arguments, almost identical ones, the same concatenation split at another place between mnemonic and passphrase; half of the histories also hold failing and succeeding calls of the other functions in between); one case in eight also observes freshness (two calls, second result clobbered, first re-read, backing arrays compared); one long-lived process of 1400 (thorough 3 x 20000) derivations whose kept results are all read again at the end; distinct = distinct (mnemonic, passphrase)",
		"samples":                          smp.List(),
		"cases_by_class":                   classes.Map(),
		"observations":                     stat.Map(),
		"python_normalisations":            e.Py().Calls,
		"unicode_version_of_oracle":        e.Uni().Version,
		"assigned_code_points":             e.Uni().Assigned,
		"children":                         stats.Children,
	}, []string{
		"CPython unicodedata (Unicode 14.0) NFKD on assigned code points is UAX #15 NFKD; decompositions are stable across Unicode versions",
		"crypto/hmac and crypto/sha512 of the Go standard library; the harness PBKDF2 loop (self-tested on the published Trezor and bip32JP vectors)",
		"inputs with more than 25 consecutive non-starters are outside the explored domain except the witnesses listed in KNOWN_FINDINGS.txt",
	})
}

// parseKey splits "a=1;b=2" witness keys.
func parseKey(k string) map[string]string {
	out := map[string]string{}
	for _, f := range strings.Split(k, ";") {
		if i := strings.IndexByte(f, '='); i > 0 {
			out[f[:i]] = f[i+1:]
		}
	}
	return out
}
