package main

import (
	"fmt"
	"math"
	"sort"
	"strings"
	"sync"

	"aaverif/internal/plan"
	"aaverif/internal/ref"
	"aaverif/internal/rng"
)

func init() { register("C09", checkC09) }

type c09exp struct {
	fn     string // enc | new
	length int    // entropy length, -1 for nil
	n      int64
	lang   int64
	source string // working | failing | default
}

func validEntLen(n int) bool    { return n == 16 || n == 20 || n == 24 || n == 28 || n == 32 }
func validCount64(n int64) bool { return n == 12 || n == 15 || n == 18 || n == 21 || n == 24 }

var hostileLangs = []int64{-1, 10, 11, 100, math.MinInt64, math.MaxInt64, math.MinInt32, math.MaxInt32, 1 << 32}

func checkC09(e *Env) {
	drv := e.BuildDrv(false)
	var mu sync.Mutex
	acceptedLens := map[int]bool{}
	acceptedCounts := map[int64]bool{}
	lensTried := map[int]bool{}
	countsTried := map[int64]bool{}
	errClasses := newCounter()
	consumed := newCounter()
	dist := newDistinct()
	smp := newSamples(10)
	sources := newCounter()

	stats := e.RunStream(StreamOpts{Drv: drv, ChildEnv: []string{"VERIF_EARLYRAND=1"}}, func(emit func(*Item)) {
		r := rng.New(e.Seed, "C09")
		lang := func(i int) int64 {
			if i%7 == 6 {
				return hostileLangs[(i/7)%len(hostileLangs)]
			}
			return int64(i % ref.NLang)
		}
		// NewMnemonicByEntropy: nil and every length 0..max
		maxLen := e.pick(2048, 8192)
		emit(&Item{Op: plan.Op{Fn: "enc", ENil: true, L: 2}, Exp: c09exp{fn: "enc", length: -1, lang: 2}})
		for l := 0; l <= maxLen; l++ {
			reps := 1
			if l <= 40 {
				reps = 12 // all languages + hostile ones around the interesting lengths
			}
			for k := 0; k < reps; k++ {
				lg := lang(l + k)
				if l <= 40 && k < 10 {
					lg = int64(k)
				}
				emit(&Item{Op: plan.Op{Fn: "enc", E: hx(r.Bytes(l)), L: lg}, Exp: c09exp{fn: "enc", length: l, lang: lg}})
			}
		}
		// accepted sizes whose sentences are as long and as short as the lists allow (every
		// language: decomposed Korean words reach 33 bytes)
		for lg := 0; lg < ref.NLang; lg++ {
			for _, size := range ref.EntSizes {
				for _, ent := range e.extremeEntropies(lg, size, "C09") {
					emit(&Item{Op: plan.Op{Fn: "enc", E: hx(ent), L: int64(lg)}, Exp: c09exp{fn: "enc", length: size, lang: int64(lg)}})
				}
			}
		}
		// slices whose capacity differs from their length (a check on cap() would be wrong)
		for l := 0; l <= 40; l++ {
			for _, extra := range []int{1, 2, 3, 4, 8, 12, 16} {
				op := plan.Op{Fn: "enc", E: hx(r.Bytes(l)), L: int64(l % ref.NLang), Cap: extra}
				emit(&Item{Op: op, Exp: c09exp{fn: "enc", length: l, lang: op.L}})
			}
		}
		big := []int{1 << 14, 1<<16 - 4, 1 << 16, 1<<16 + 16, 1<<16 + 20, 1<<16 + 24, 1<<16 + 28, 1<<16 + 32, 1<<16 + 36, 2<<16 + 16, 1<<16 + 256 + 32, 1<<20 + 16, 1<<20 + 32, 1 << 20}
		for k := 4; k < 64; k++ { // lengths congruent to valid ones modulo 2^8
			big = append(big, k<<8+16, k<<8+20, k<<8+24, k<<8+28, k<<8+32)
		}
		if e.Thorough() {
			big = append(big, 1<<22, 1<<24, 1<<24+32, 1<<24+20)
			for k := 0; k < 200; k++ {
				big = append(big, 8192+r.Intn(1<<20))
			}
		}
		for i, l := range big {
			emit(&Item{Op: plan.Op{Fn: "enc", ESegs: []plan.Seg{{H: "a7", R: l}}, L: lang(i)}, Exp: c09exp{fn: "enc", length: l, lang: lang(i)}})
		}
		// NewMnemonic: every int in a window plus the extremes, three kinds of source
		var counts []int64
		w := int64(e.pick(1500, 20000))
		for n := -w; n <= w; n++ {
			counts = append(counts, n)
		}
		for _, base := range []int64{math.MinInt64, math.MinInt32, math.MaxInt32, 1 << 32, math.MaxInt64, 1 << 31, -(1 << 31), 1 << 16, 1 << 8, 1 << 62} {
			for d := int64(-30); d <= 30; d++ {
				n := base + d
				if (base == math.MinInt64 && d < 0) || (base == math.MaxInt64 && d > 0) {
					continue
				}
				counts = append(counts, n)
			}
		}
		for b := uint(6); b <= 62; b++ { // log-uniform counts and counts congruent to valid ones modulo 2^b
			for _, c := range []int64{12, 15, 18, 21, 24} {
				counts = append(counts, int64(1)<<b+c, -(int64(1)<<b)+c, int64(3)<<b+c)
			}
			counts = append(counts, int64(1)<<b|int64(r.Uint64()&(1<<b-1)), -(int64(1)<<b | int64(r.Uint64()&(1<<b-1))))
		}
		for _, c := range []int64{12, 15, 18, 21, 24, -12, -24} {
			counts = append(counts, 1<<32+c, 1<<33+c, -(1<<32)+c, 1<<16+c, 1<<8+c)
		}
		for i, n := range counts {
			lg := lang(i)
			if validCount64(n) || (n >= 9 && n <= 27) {
				for l := int64(0); l < ref.NLang; l++ {
					emit(&Item{Op: plan.Op{Fn: "new", N: n, L: l, Src: &plan.Src{Data: hx(r.Bytes(64))}}, Exp: c09exp{fn: "new", n: n, lang: l, source: "working"}})
				}
			}
			emit(&Item{Op: plan.Op{Fn: "new", N: n, L: lg, Src: &plan.Src{Data: hx(r.Bytes(64))}}, Exp: c09exp{fn: "new", n: n, lang: lg, source: "working"}})
			if n >= 9 && n <= 27 {
				// working sources that deliver in short reads, and one that flags EOF with the last byte
				for _, chunk := range []int{1, 3, 7, 16, 20, 31} {
					var st []plan.Step
					for k := 0; k < 64; k += chunk {
						st = append(st, plan.Step{N: chunk})
					}
					emit(&Item{Op: plan.Op{Fn: "new", N: n, L: lg, Src: &plan.Src{Data: hx(r.Bytes(64)), Steps: st}}, Exp: c09exp{fn: "new", n: n, lang: lg, source: "working"}})
				}
			}
			emit(&Item{Op: plan.Op{Fn: "new", N: n, L: lg, Src: &plan.Src{Data: hx(r.Bytes(8)), Steps: []plan.Step{{N: 3, E: "custom"}}}}, Exp: c09exp{fn: "new", n: n, lang: lg, source: "failing"}})
			emit(&Item{Op: plan.Op{Fn: "new", N: n, L: lg}, Exp: c09exp{fn: "new", n: n, lang: lg, source: "default"}})
		}
	}, func(it *Item, r *plan.Res) {
		x := it.Exp.(c09exp)
		if f := failure(r); f != "" {
			// the property fixes the returned pair for every size and count: not returning at all violates it
			e.Violate(&Violation{What: fmt.Sprintf("%s(size/count %d/%d, language %d, %s source) did not return a (string, error) pair: %s", map[string]string{"enc": "NewMnemonicByEntropy", "new": "NewMnemonic"}[x.fn], x.length, x.n, x.lang, x.source, oneLine(f, 300)),
				Ops: []plan.Op{it.Op}, Observed: r})
			return
		}
		out := string(unhex(r.Out))
		switch x.fn {
		case "enc":
			mu.Lock()
			lensTried[x.length] = true
			if r.Err == nil {
				acceptedLens[x.length] = true
			}
			mu.Unlock()
			want := validEntLen(x.length)
			switch {
			case want && (r.Err != nil || out == ""):
				e.Violate(&Violation{What: fmt.Sprintf("NewMnemonicByEntropy with %d bytes of entropy (language %d) must succeed with a non-empty mnemonic; got %s, err=%s", x.length, x.lang, preview(out), errText(r.Err)), Ops: []plan.Op{it.Op}, Observed: r})
				return
			case !want && r.Err == nil:
				e.Violate(&Violation{What: fmt.Sprintf("NewMnemonicByEntropy accepted an entropy of %d bytes (language %d): %s", x.length, x.lang, preview(out)), Ops: []plan.Op{it.Op}, Expected: "\"\", ErrEntropyLen", Observed: r})
				return
			case !want && (!r.Err.EntLen || out != ""):
				e.Violate(&Violation{What: fmt.Sprintf("NewMnemonicByEntropy with %d bytes: expected (\"\", error matching ErrEntropyLen), got (%s, %q matching ErrEntropyLen=%v)", x.length, preview(out), errText(r.Err), r.Err.EntLen), Ops: []plan.Op{it.Op}, Observed: r})
				return
			}
			if want {
				errClasses.Inc("enc-accepted")
			} else {
				errClasses.Inc("enc-ErrEntropyLen")
			}
			dist.Add("enc", itoa(x.length), fmt.Sprint(x.lang))
		case "new":
			sources.Inc(x.source)
			delivered := 0
			for _, ev := range r.Reads {
				delivered += ev.N
			}
			mu.Lock()
			countsTried[x.n] = true
			if r.Err == nil {
				acceptedCounts[x.n] = true
			}
			mu.Unlock()
			want := validCount64(x.n)
			switch {
			case !want && r.Err == nil:
				e.Violate(&Violation{What: fmt.Sprintf("NewMnemonic accepted word count %d (language %d, %s source): %s", x.n, x.lang, x.source, preview(out)), Ops: []plan.Op{it.Op}, Expected: "\"\", ErrWordLen", Observed: r})
				return
			case !want && (!r.Err.WordLen || out != ""):
				e.Violate(&Violation{What: fmt.Sprintf("NewMnemonic(%d): expected (\"\", error matching ErrWordLen), got (%s, %q matching ErrWordLen=%v)", x.n, preview(out), errText(r.Err), r.Err.WordLen), Ops: []plan.Op{it.Op}, Observed: r})
				return
			case !want && delivered > 0:
				e.Violate(&Violation{What: fmt.Sprintf("NewMnemonic(%d) rejected the word count but consumed %d bytes of randomness (%s source)", x.n, delivered, x.source), Ops: []plan.Op{it.Op}, Expected: "no bytes consumed", Observed: r})
				return
			case want && x.source != "failing" && (r.Err != nil || out == ""):
				e.Violate(&Violation{What: fmt.Sprintf("NewMnemonic(%d, language %d) with a %s source must succeed with a non-empty mnemonic; got %s, err=%s", x.n, x.lang, x.source, preview(out), errText(r.Err)), Ops: []plan.Op{it.Op}, Observed: r})
				return
			case want && x.source != "failing" && x.lang >= 0 && x.lang < ref.NLang && len(strings.Fields(out)) != int(x.n):
				e.Violate(&Violation{What: fmt.Sprintf("NewMnemonic(%d) returned %d words", x.n, len(strings.Fields(out))), Ops: []plan.Op{it.Op}, Observed: r})
				return
			}
			if !want {
				consumed.Add("bytes_consumed_on_rejected_counts", delivered)
				consumed.Add("read_calls_on_rejected_counts", len(r.Reads))
				consumed.Inc("rejected_counts_observed_at_source:" + x.source)
				errClasses.Inc("new-ErrWordLen")
			} else if r.Err == nil {
				errClasses.Inc("new-accepted")
			} else {
				errClasses.Inc("new-valid-count-failing-source")
			}
			dist.Add("new", fmt.Sprint(x.n), fmt.Sprint(x.lang), x.source)
			if x.n < 30 && x.n > 5 {
				smp.Add(map[string]any{"call": fmt.Sprintf("NewMnemonic(%d, %d) with %s source", x.n, x.lang, x.source), "out": preview(out), "err": errText(r.Err), "source_reads": r.Reads})
			}
		}
	})

	// histories in one process: sizes and counts, valid and invalid, among calls of the other functions
	histCalls := e.runHistories(drv, "C09", e.pick(24, 300), 4, func(ops []plan.Op, res []plan.Res) {
		for i := range res {
			op := &ops[i]
			if (op.Fn != "new" && op.Fn != "enc") || res[i].Panic != "" {
				continue
			}
			x := e.refEval(op)
			x.out, x.newValid = nil, 0 // only the size rule is this property's business
			want := (op.Fn == "enc" && validEntLen(len(op.Entropy()))) || (op.Fn == "new" && validCount64(op.N))
			if want && op.Fn == "new" && x.errClass != "nil" {
				continue // an accepted count with a source that fails: C06's business
			}
			if !want {
				empty := ""
				x.out = &empty
			}
			if why := e.judgeAgainstRef(op, &res[i], x); why != "" {
				e.Violate(&Violation{What: fmt.Sprintf("after earlier calls in the same process %s (size/count %d/%d): %s", fnName(op.Fn), len(op.Entropy()), op.N, why), Ops: ops[:i+1], Observed: res[i], Detail: historyNote})
				return
			}
		}
	})
	// "given a working source": a source that stays installed, failed during an earlier call and
	// works during this one is a working source
	transientCalls := e.transientHistories(drv, "C09", e.pick(40, 600), func(c *transientCall) {
		if why := c.workingSourceVerdict(); why != "" && (c.res.Err != nil || c.res.Panic != "") {
			e.Violate(&Violation{What: "accepted word count with a source that works during the call: " + why, Ops: c.ops[:c.i+1], Observed: c.res, Detail: historyNote})
		}
	})
	// the concurrent flavour of this monitor (C12 is the full treatment)
	concCalls := e.concurrentSmoke(drv, "C09", e.sizeRulePool("C09"), e.pick(4, 16), e.pick(200, 1000), e.smokeSizeRule())
	var al []int
	for l := range acceptedLens {
		al = append(al, l)
	}
	sort.Ints(al)
	var ac []int64
	for c := range acceptedCounts {
		ac = append(ac, c)
	}
	sort.Slice(ac, func(i, j int) bool { return ac[i] < ac[j] })
	if e.Violations() == 0 && (fmt.Sprint(al) != "[16 20 24 28 32]" || fmt.Sprint(ac) != "[12 15 18 21 24]") {
		fatalInconclusive("C09: accepted sets are %v and %v", al, ac)
	}
	e.WriteEvidence("exploration", map[string]any{
		"evaluations":                      stats.Ops,
		"distinct_nontrivial":              dist.Len(),
		"calls_inside_histories":           histCalls,
		"calls_repeated_under_concurrency": concCalls,
		"calls_on_a_source_that_fails_transiently_and_stays_installed": transientCalls,
		"rule":                     "cases: NewMnemonicByEntropy with nil and every slice length 0..2048 (thorough 0..8192), lengths congruent to valid ones modulo 2^8 and 2^16, and sizes up to 1 MiB (thorough 16 MiB) over supported and unsupported languages; NewMnemonic with every int in [-1500,1500] (thorough [-20000,20000]), windows of +-30 around MinInt64, MinInt32, +-2^31, MaxInt32, 2^32, 2^62, MaxInt64, and values congruent to valid counts modulo 2^8/2^16/2^32 (truncation mutants), each with a working scripted source, a failing scripted source and the default source (observed through the crypto/rand interposer); non-trivial = every case (the required outcome is fully determined); distinct by (function, size or count, language, source)",
		"samples":                  smp.List(),
		"entropy_lengths_tried":    len(lensTried),
		"accepted_entropy_lengths": al,
		"word_counts_tried":        len(countsTried),
		"accepted_word_counts":     ac,
		"outcomes":                 errClasses.Map(),
		"source_observations":      consumed.Map(),
		"new_calls_by_source":      sources.Map(),
		"children":                 stats.Children,
	}, []string{
		"errors.Is against the package's exported sentinels, evaluated in the child",
		"the verif-tagged swap hook and the crypto/rand interposer count the bytes delivered during each call",
	})
}
