package main

import (
	"fmt"
	"strconv"
	"strings"

	"aaverif/internal/plan"
	"aaverif/internal/ref"
	"aaverif/internal/rng"
)

func init() { register("C15", checkC15) }

type c15exp struct {
	lang    int
	s       string
	defect  string   // count | checksum | unknown | unknown-weak | multi | none
	n       int      // tokens
	unknown []string // the unknown tokens (NFKD-stable), for the message check
	sub     string
}

func checkC15(e *Env) {
	drv := e.BuildDrv(false)
	byDefect := newCounter()
	matrix := newCounter()
	errKinds := newCounter()
	dist := newDistinct()
	smp := newSamples(10)
	m := e.Model

	stats := e.RunStream(StreamOpts{Drv: drv}, func(emit func(*Item)) {
		send := func(x c15exp) {
			emit(&Item{Op: plan.Op{Fn: "chk", L: int64(x.lang), S: hxs(x.s)}, Exp: x})
		}
		reps := e.pick(3, 40)
		for lang := 0; lang < ref.NLang; lang++ {
			other := (lang + 1) % ref.NLang
			if lang <= 1 {
				other = 2 // the two Chinese lists share words; use English as foreign list
			}
			if lang == 2 {
				other = 4 // English and French share words; use Italian
			}
			if lang == 3 {
				other = 7
			}
			for si, size := range ref.EntSizes {
				r := rng.New(e.Seed, "C15-"+itoa(lang)+"-"+itoa(size))
				for rep := 0; rep < reps; rep++ {
					ent := r.Bytes(size)
					if rep%3 == 1 {
						// zero-leading: D1 used to misreport these. The number of leading zero bytes
						// runs over 1..15 (whole 32-bit groups included) across languages and sizes.
						z := []int{1, 2, 4, 5, 8, 3, 6, 12, 9, 15}[(lang*5+si+rep/3)%10]
						if z > size-1 {
							z = size - 1
						}
						for i := 0; i < z; i++ {
							ent[i] = 0
						}
					}
					w := m.Words(ent, lang)
					n := len(w)
					send(c15exp{lang: lang, s: strings.Join(w, " "), defect: "none", n: n})
					// count-only defects: list words only, n in 0..40 outside the valid set
					for c := 0; c <= 40; c++ {
						if ref.ValidCount(c) {
							continue
						}
						t := make([]string, c)
						for i := range t {
							t[i] = w[i%n]
						}
						send(c15exp{lang: lang, s: strings.Join(t, " "), defect: "count", n: c})
					}
					// checksum-only defects: every wrong final word (first rep) or a sample, plus substitutions
					last := m.Index[lang][w[n-1]]
					for v := 0; v < 2048; v++ {
						if rep > 0 && r.Intn(16) != 0 {
							continue
						}
						t := append([]string(nil), w...)
						t[n-1] = m.List[lang][v]
						if _, st, _ := m.Dec(t, lang); st == ref.BadChecksum {
							send(c15exp{lang: lang, s: strings.Join(t, " "), defect: "checksum", n: n, sub: "final-word"})
						}
						_ = last
					}
					for k := 0; k < 20; k++ {
						t := append([]string(nil), w...)
						t[r.Intn(n)] = m.List[lang][r.Intn(2048)]
						if r.Intn(2) == 0 {
							i, j := r.Intn(n), r.Intn(n)
							t[i], t[j] = t[j], t[i]
						}
						if _, st, _ := m.Dec(t, lang); st == ref.BadChecksum {
							send(c15exp{lang: lang, s: strings.Join(t, " "), defect: "checksum", n: n, sub: "substitution"})
						}
					}
					// unknown token at every position, acceptable count; the checksum is irrelevant
					for pos := 0; pos < n; pos++ {
						marker := fmt.Sprintf("qz%dx%dk", r.Intn(100000), pos)
						t := append([]string(nil), w...)
						t[pos] = marker
						send(c15exp{lang: lang, s: strings.Join(t, " "), defect: "unknown", n: n, unknown: []string{marker}, sub: "marker"})
					}
					for k := 0; k < 12; k++ {
						pos := r.Intn(n)
						if k >= 6 && k%2 == 0 {
							pos = n - 1 // the last word
						}
						t := append([]string(nil), w...)
						var unk string
						sub := ""
						switch k {
						case 0: // word of another list that is not in this one
							for {
								unk = m.List[other][r.Intn(2048)]
								if _, in := m.Index[lang][unk]; !in {
									break
								}
							}
							sub = "foreign-word"
						case 1:
							unk = w[pos] + "zq"
							sub = "suffixed"
						case 2:
							unk = "ZQ" + w[pos]
							sub = "prefixed"
						case 3:
							unk = strings.ToUpper(w[pos]) + "Q"
							sub = "case-damaged"
						case 4:
							unk = w[pos] + w[(pos+1)%n] + "q"
							sub = "glued"
						case 5:
							unk = "x\x00y" + itoa(r.Intn(1000))
							sub = "nul-inside"
						case 6:
							unk = "100%s%d%v" + itoa(r.Intn(1000))
							sub = "percent-verbs"
						case 7:
							unk = "back`tick`" + itoa(r.Intn(1000))
							sub = "backtick"
						case 8: // a proper prefix of a list word that is not itself a list word
							rs := []rune(w[pos])
							unk = string(rs[:len(rs)-1]) + ""
							if _, in := m.Index[lang][unk]; in || unk == "" {
								unk = w[pos] + "zz"
							}
							sub = "prefix-of-list-word"
						case 9:
							unk = "qq\xffzz" + itoa(r.Intn(1000))
							sub = "invalid-utf8-inside"
						case 10:
							unk = w[pos] + "\u0301"
							sub = "extra-combining-mark"
						case 11:
							if rep%2 == 1 {
								unk = []string{"q", "z", "1", "-", "qz"}[r.Intn(5)]
								sub = "very-short-token"
								break
							}
							unk = strings.Repeat("k", []int{70, 300, 900, 5000, 70000}[rep%5]) + itoa(r.Intn(1000))
							sub = "long-token"
						}
						t[pos] = unk
						send(c15exp{lang: lang, s: strings.Join(t, " "), defect: "unknown", n: n, unknown: []string{unk}, sub: sub})
						// two unknown tokens: the message must name one of them
						if k == 1 {
							p2 := (pos + 1 + r.Intn(n-1)) % n
							t2 := append([]string(nil), t...)
							t2[p2] = "qq" + itoa(r.Intn(1000)) + "zz"
							send(c15exp{lang: lang, s: strings.Join(t2, " "), defect: "unknown", n: n, unknown: []string{unk, t2[p2]}, sub: "two-unknown"})
						}
					}
					// weaker classes: asserted only to be errors that are not nil
					t := append([]string(nil), w...)
					t[r.Intn(n)] = ""
					send(c15exp{lang: lang, s: strings.Join(t, " "), defect: "unknown-weak", n: n, sub: "empty-token"})
					send(c15exp{lang: lang, s: strings.Join(w, "\t"), defect: "multi", n: 1, sub: "tab-separated"})
					send(c15exp{lang: lang, s: " " + strings.Join(w, " "), defect: "multi", n: n + 1, sub: "leading-space"})
					t3 := append([]string(nil), w[:n-2]...)
					t3[0] = "qzqz"
					send(c15exp{lang: lang, s: strings.Join(t3, " "), defect: "multi", n: n - 2, sub: "count+unknown"})
				}
				_ = si
			}
			// one unknown token as large as the buffers of the standard library's scanners and
			// readers, at the start, in the middle and at the end of a sentence of acceptable count
			// word counts that are congruent to an acceptable count modulo 2^8 and 2^16 (all list
			// words; the only defect is the count)
			rc := rng.New(e.Seed, "C15-bigcount-"+itoa(lang))
			for _, n := range []int{268, 271, 274, 277, 280, 524, 536, 65548, 65560} {
				if n > 1000 && lang%5 != 0 {
					continue
				}
				t := make([]string, n)
				for i := range t {
					t[i] = m.List[lang][rc.Intn(2048)]
				}
				send(c15exp{lang: lang, s: strings.Join(t, " "), defect: "count", n: n, sub: "congruent-to-an-acceptable-count"})
			}
			// a list word with a combining mark in FRONT of it (right after the separator)
			rm := rng.New(e.Seed, "C15-markfirst-"+itoa(lang))
			for mi, mark := range []string{"\u0308", "\u0301", "\u3099", "\u0323"} {
				n := ref.WordCounts[(mi+lang)%5]
				w := m.Words(rm.Bytes(n+n/3), lang)
				pos := 1 + rm.Intn(n-1)
				t := append([]string(nil), w...)
				t[pos] = mark + w[pos]
				if _, in := m.Index[lang][t[pos]]; !in {
					send(c15exp{lang: lang, s: strings.Join(t, " "), defect: "unknown", n: n, unknown: []string{t[pos]}, sub: "mark-in-front-of-a-list-word"})
				}
			}
			rh := rng.New(e.Seed, "C15-huge-"+itoa(lang))
			for hi, size := range []int{4096, 65535, 65536, 70000} {
				n := ref.WordCounts[(hi+lang)%5]
				w := m.Words(rh.Bytes(n+n/3), lang)
				for _, pos := range []int{0, n / 2, n - 1} {
					t := append([]string(nil), w...)
					t[pos] = strings.Repeat("k", size) + itoa(pos)
					send(c15exp{lang: lang, s: strings.Join(t, " "), defect: "unknown", n: n, unknown: []string{t[pos]}, sub: "huge-token"})
				}
			}
		}
	}, func(it *Item, r *plan.Res) {
		x := it.Exp.(c15exp)
		byDefect.Inc(x.defect)
		if f := failure(r); f != "" {
			e.Violate(&Violation{What: "CheckMnemonic did not return an error value: " + f, Ops: []plan.Op{it.Op}, Observed: r})
			return
		}
		cls := "nil"
		if r.Err != nil {
			switch {
			case r.Err.WordLen && r.Err.Checksum:
				cls = "ErrWordLen+ErrChecksumIncorrect"
			case r.Err.WordLen:
				cls = "ErrWordLen"
			case r.Err.Checksum:
				cls = "ErrChecksumIncorrect"
			default:
				cls = "other"
			}
		}
		errKinds.Inc(x.defect + " -> " + cls)
		bad := func(what string) {
			e.Violate(&Violation{What: fmt.Sprintf("%s (%s, %d tokens, defect class %s/%s): got %s %q for %s", what, ref.Names[x.lang], x.n, x.defect, x.sub, cls, errText(r.Err), preview(x.s)),
				Ops: []plan.Op{it.Op}, Observed: r})
		}
		switch x.defect {
		case "none":
			// acceptance of valid sentences is C02's; a nil error here is merely consistent
			if r.Err != nil {
				errKinds.Inc("valid-sentence-rejected(C02)")
			}
			return
		case "count":
			if cls != "ErrWordLen" {
				bad("the only defect is the word count, so the error must match ErrWordLen (and only it)")
				return
			}
		case "checksum":
			if cls != "ErrChecksumIncorrect" {
				bad("the only defect is the checksum, so the error must match ErrChecksumIncorrect (and only it)")
				return
			}
		case "unknown":
			if cls != "other" {
				bad("a token is not in the list and the count is acceptable, so the error must be a non-nil error different from both sentinels")
				return
			}
			msg := string(unhex(r.Err.Msg))
			named := false
			for _, u := range x.unknown {
				if namesToken(msg, u) {
					named = true
				} else if nu, ok := e.NFKD1(u); ok && namesToken(msg, nu) {
					named = true
				}
			}
			if !named {
				bad(fmt.Sprintf("the error message does not name an unknown token (%q)", x.unknown))
				return
			}
		default: // unknown-weak, multi: a nil error is allowed only if the string is a valid sentence in
			// the property's sense (white-space separated tokens of the NFKD form); an implementation
			// that tolerates extra white space is not reported
			if st, _ := e.RefValidate(x.s, x.lang); r.Err == nil && st != ref.OK {
				bad("a sentence that is not valid (" + st.String() + ") got a nil error")
				return
			} else if st == ref.OK {
				errKinds.Inc("white-space-variant-of-valid-sentence(not asserted)")
			}
		}
		matrix.Inc(fmt.Sprintf("%s/%s/%d", x.defect, ref.Names[x.lang], x.n))
		dist.Add(x.s, itoa(x.lang))
		if x.defect != "count" || x.n%7 == 0 {
			smp.Add(map[string]any{"language": ref.Names[x.lang], "defect": x.defect + "/" + x.sub, "tokens": x.n, "sentence": preview(x.s), "error_class": cls, "message": preview(errText(r.Err))})
		}
	})

	// histories: the error kind of a single-defect sentence must not depend on what was
	// validated before it in the same process
	histCalls := e.runHistories(drv, "C15", e.pick(32, 400), 5, func(ops []plan.Op, res []plan.Res) {
		for i := range res {
			op := &ops[i]
			if op.Fn != "chk" || op.L < 0 || op.L >= ref.NLang || res[i].Panic != "" {
				continue
			}
			n, ok := e.NFKD1(op.Str())
			if !ok {
				continue
			}
			toks := strings.Split(n, " ")
			if len(strings.Fields(n)) != len(toks) {
				continue // extra white space: not a single-defect sentence
			}
			unknown := ""
			for _, t := range toks {
				if _, in := m.Index[op.L][t]; !in {
					unknown = t
					break
				}
			}
			_, st, _ := m.Dec(toks, int(op.L))
			want := ""
			switch {
			case st == ref.OK:
				continue
			case st == ref.BadCount && unknown == "":
				want = "wordlen"
			case st == ref.BadChecksum:
				want = "checksum"
			case st == ref.UnknownWord:
				want = "other"
			default:
				continue // several defects at once
			}
			got := errClassOf(res[i].Err)
			if got != want || (want == "other" && !namesToken(errText(res[i].Err), unknown)) {
				e.Violate(&Violation{What: fmt.Sprintf("after earlier calls in the same process CheckMnemonic reports error class %s (%s) for a %s sentence whose only defect calls for %s: %s", got, errText(res[i].Err), ref.Names[op.L], want, preview(op.Str())),
					Ops: ops[:i+1], Expected: want, Observed: res[i], Detail: historyNote})
				return
			}
		}
	})
	errKinds.Add("calls_inside_histories", histCalls)

	// the concurrent flavour of this monitor (C12 is the full treatment)
	// its own pool: mostly 12-word sentences whose only defect is the checksum (a wrongly computed
	// checksum matches one time in sixteen), next to both generators
	cpool := e.smokePool("C15", "chk")
	{
		r := rng.New(e.Seed, "C15-concpool")
		for k := 0; k < 24; k++ {
			l := k % ref.NLang
			w := m.Words(r.Bytes(16), l)
			w[len(w)-1] = m.List[l][m.Index[l][w[len(w)-1]]^(1+k%3)]
			if _, st, _ := m.Dec(w, l); st == ref.BadChecksum {
				cpool = append(cpool, plan.Op{Fn: "chk", L: int64(l), S: hxs(strings.Join(w, " "))})
			}
			cpool = append(cpool, plan.Op{Fn: "enc", L: int64(l), E: hx(r.Bytes(ref.EntSizes[k%5]))})
		}
	}
	concCalls := e.concurrentSmoke(drv, "C15", cpool, e.pick(8, 32), e.pick(1500, 4000), e.smokeErrClass())

	if e.Violations() == 0 && (byDefect.Get("count") == 0 || byDefect.Get("checksum") == 0 || byDefect.Get("unknown") == 0) {
		fatalInconclusive("C15: a defect class was not explored")
	}
	e.WriteEvidence("exploration", map[string]any{
		"evaluations":                      stats.Ops,
		"distinct_nontrivial":              dist.Len(),
		"calls_repeated_under_concurrency": concCalls,
		"rule":                             "cases are sentences built by the parent with exactly one class of defect, for all ten languages and all five word counts: (count) list words only, 0..40 tokens outside {12,15,18,21,24}; (checksum) valid count, list words only, the reference decoder reports a bad checksum — every wrong final word of sampled prefixes incl. zero-leading ones, plus substitutions/transpositions; (unknown) acceptable count with one or two tokens that are not in the list — unique markers at every position, words of another list, affixed/case-damaged/glued words, NUL inside; weaker classes (empty token, tab separated, leading space, count+unknown) are only required to be errors; the child reports errors.Is against the three sentinels and the message; non-trivial = every defective sentence; distinct by (sentence, language)",
		"samples":                          smp.List(),
		"sentences_by_defect":              byDefect.Map(),
		"defect_to_error_class":            errKinds.Map(),
		"defect_language_count_cells":      len(matrix.Map()),
		"children":                         stats.Children,
	}, []string{
		"errors.Is evaluated in the child against the package's own exported sentinels",
		"golden lists; reference decoder for classifying checksum-only defects",
	})
}

// namesToken reports whether an error message names a token: verbatim, or in
// one of Go's quoted renderings (%q, %+q, strconv.QuoteToGraphic) — a message is
// free to escape control characters or invalid bytes of the token.
func namesToken(msg, tok string) bool {
	if strings.Contains(msg, tok) {
		return true
	}
	if len(msg) >= plan.MsgCap && len(tok) > 256 {
		// the child reports at most MsgCap bytes of a message: a long token can only be
		// recognised by its beginning
		return namesToken(msg, tok[:utf8Prefix(tok, 128)])
	}
	for _, q := range []string{strconv.Quote(tok), strconv.QuoteToASCII(tok), strconv.QuoteToGraphic(tok)} {
		if inner := q[1 : len(q)-1]; strings.Contains(msg, inner) {
			return true
		}
	}
	return false
}

// utf8Prefix returns the length of the longest prefix of s of at most n bytes that does not
// cut a UTF-8 sequence.
func utf8Prefix(s string, n int) int {
	if n >= len(s) {
		return len(s)
	}
	for n > 0 && s[n]&0xC0 == 0x80 {
		n--
	}
	return n
}
