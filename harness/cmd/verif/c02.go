package main

import (
	"fmt"
	"strings"
	"sync"
	"time"

	"aaverif/internal/plan"
	"aaverif/internal/ref"
	"aaverif/internal/rng"
)

func init() { register("C02", checkC02) }

type c02exp struct {
	kind string // own (implementation's own output fed back) | ref (reference sentence) | new-default | new-scripted
	c    EntCase
	sent string
	n    int
}

func checkC02(e *Env) {
	drv := e.BuildDrv(false)
	var mu sync.Mutex
	var posWord [ref.NLang][24][2048]bool // (language, position, word) accepted inside a valid sentence
	posWordCount := 0
	lz := newCounter()
	kinds := newCounter()
	classes := newCounter()
	dist := newDistinct()
	smp := newSamples(6)
	ownDiffersFromRef := newCounter()
	notReturned := newCounter() // generator calls that returned no mnemonic (not this property's subject)

	noteAccepted := func(lang int, toks []string) {
		mu.Lock()
		for p, t := range toks {
			if v, ok := e.Model.Index[lang][t]; ok && !posWord[lang][p][v] {
				posWord[lang][p][v] = true
				posWordCount++
			}
		}
		mu.Unlock()
	}

	stats := e.RunStream(StreamOpts{Drv: drv}, func(emit func(*Item)) {
		e.entropyCorpus("C02", func(c EntCase) {
			// (a) the implementation's own output, checked in the same process
			emit(&Item{Op: plan.Op{Fn: "encchk", L: int64(c.Lang), E: hx(c.Ent), Arena: c.Ent[0]&1 == 1}, Exp: c02exp{kind: "own", c: c}})
			// (b) the reference sentence for the same entropy ("equivalently" clause)
			s := e.Model.Enc(c.Ent, c.Lang)
			emit(&Item{Op: plan.Op{Fn: "chkval", L: int64(c.Lang), S: hxs(s)}, Exp: c02exp{kind: "ref", c: c, sent: s}})
			if c.Lang == ref.Japanese && c.Class != "random" {
				// the same words joined by U+0020 are the same list words with the same checksum
				s2 := strings.Join(e.Model.Words(c.Ent, c.Lang), " ")
				emit(&Item{Op: plan.Op{Fn: "chkval", L: int64(c.Lang), S: hxs(s2)}, Exp: c02exp{kind: "ref-space-joined", c: c, sent: s2}})
			}
		})
		// (a') a mnemonic that is HELD while another one is generated, then validated
		rh := rng.New(e.Seed, "C02-hold")
		for k := 0; k < e.pick(2000, 40000); k++ {
			lang := k % ref.NLang
			e1, e2 := rh.Bytes(ref.EntSizes[rh.Intn(5)]), rh.Bytes(ref.EntSizes[rh.Intn(5)])
			emit(&Item{Op: plan.Op{Fn: "genhold", L: int64(lang), E: hx(e1), P: hx(e2)}, Exp: c02exp{kind: "held", c: EntCase{Ent: e1, Lang: lang, Class: "held"}}})
		}
		// (c) NewMnemonic output, default source and scripted sources
		r := rng.New(e.Seed, "C02-new")
		reps := e.pick(40, 1000)
		for lang := 0; lang < ref.NLang; lang++ {
			for si, n := range ref.WordCounts {
				for k := 0; k < reps; k++ {
					emit(&Item{Op: plan.Op{Fn: "newchk", L: int64(lang), N: int64(n)}, Exp: c02exp{kind: "new-default", n: n, c: EntCase{Lang: lang}}})
					ent := r.Bytes(ref.EntSizes[si])
					switch k % 4 {
					case 1:
						for i := 0; i <= k%3; i++ {
							ent[i] = 0
						}
					case 2:
						for i := range ent {
							ent[i] = 0xff
						}
					case 3:
						for i := range ent {
							ent[i] = 0
						}
					}
					src := &plan.Src{Data: hx(ent)}
					if k%3 == 1 {
						// the source delivers in short reads
						chunk := []int{1, 3, 8, 12, 16, 20, 31}[(k/3)%7]
						for d := 0; d < len(ent); d += chunk {
							src.Steps = append(src.Steps, plan.Step{N: chunk})
						}
					}
					emit(&Item{Op: plan.Op{Fn: "newchk", L: int64(lang), N: int64(n), Src: src},
						Exp: c02exp{kind: "new-scripted", n: n, c: EntCase{Ent: ent, Lang: lang, Class: "scripted"}}})
				}
			}
		}
	}, func(it *Item, r *plan.Res) {
		x := it.Exp.(c02exp)
		lang := x.c.Lang
		kinds.Inc(x.kind)
		if f := failure(r); f != "" {
			if x.kind != "ref" && x.kind != "ref-space-joined" && e.generatorAtFault(drv, &it.Op, r) {
				// nothing was returned, so there is nothing that must be accepted: whether the
				// generator may fail here is C01's, C09's and C14's question
				notReturned.Inc(x.kind + ": " + oneLine(f, 60))
				return
			}
			e.Violate(&Violation{What: "call did not return normally: " + f, Ops: []plan.Op{it.Op}, Observed: r})
			return
		}
		switch x.kind {
		case "own", "new-default", "new-scripted", "held":
			if r.Err != nil {
				notReturned.Inc(x.kind + ": error " + oneLine(errText(r.Err), 60))
				return
			}
			out := string(unhex(r.Out))
			if r.Err2 != nil || r.B == nil || !*r.B {
				ent, _ := e.Model.DecodeLoose(strings.Fields(out), lang)
				e.Violate(&Violation{
					What: fmt.Sprintf("mnemonic returned by the generator (%s, %s, entropy %x) is rejected under the same language: CheckMnemonic=%q IsMnemonicValid=%v; sentence %s",
						x.kind, ref.Names[lang], ent, errText(r.Err2), r.B != nil && *r.B, preview(out)),
					Ops: []plan.Op{it.Op}, Expected: "CheckMnemonic == nil and IsMnemonicValid == true", Observed: r})
				return
			}
			toks := strings.Fields(out)
			noteAccepted(lang, toks)
			if x.kind == "held" && out != e.Model.Enc(x.c.Ent, lang) {
				e.Violate(&Violation{What: fmt.Sprintf("a mnemonic returned by NewMnemonicByEntropy(%x, %s) no longer reads as the sentence of that entropy after another mnemonic was generated: %s", x.c.Ent, ref.Names[lang], preview(out)),
					Ops: []plan.Op{it.Op}, Expected: map[string]string{"out_hex": hxs(e.Model.Enc(x.c.Ent, lang))}, Observed: r})
				return
			}
			if x.kind == "own" {
				if out != e.Model.Enc(x.c.Ent, lang) {
					ownDiffersFromRef.Inc(ref.Names[lang]) // C01's business; recorded only
				}
				lz.Inc(fmt.Sprintf("%02d-leading-zero-bytes", leadingZeroBytes(x.c.Ent)))
				classes.Inc(x.c.Class)
				dist.Add("own", string(x.c.Ent), itoa(lang))
			} else {
				dist.Add(x.kind, out)
			}
			smp.Add(map[string]any{"kind": x.kind, "language": ref.Names[lang], "sentence": out, "check": "nil", "valid": true})
		default: // reference sentences
			if r.Err != nil || r.B == nil || !*r.B {
				e.Violate(&Violation{
					What: fmt.Sprintf("valid BIP39 sentence (entropy %x, %s, %d leading zero bytes) is rejected: CheckMnemonic=%q IsMnemonicValid=%v; sentence %s",
						x.c.Ent, ref.Names[lang], leadingZeroBytes(x.c.Ent), errText(r.Err), r.B != nil && *r.B, preview(x.sent)),
					Ops: []plan.Op{it.Op}, Expected: "CheckMnemonic == nil and IsMnemonicValid == true", Observed: r})
				return
			}
			noteAccepted(lang, strings.Fields(x.sent))
			dist.Add(x.kind, x.sent)
		}
	})

	// histories: a valid sentence right after other sentences, other languages, near misses
	histCalls := e.runHistories(drv, "C02", e.pick(32, 400), 5, func(ops []plan.Op, res []plan.Res) {
		for i := range res {
			op := &ops[i]
			if (op.Fn != "chk" && op.Fn != "val") || op.L < 0 || op.L >= ref.NLang || res[i].Panic != "" {
				continue
			}
			if st, _ := e.RefValidate(op.Str(), int(op.L)); st != ref.OK {
				continue
			}
			accepted := (op.Fn == "chk" && res[i].Err == nil) || (op.Fn == "val" && res[i].B != nil && *res[i].B)
			if !accepted {
				e.Violate(&Violation{What: fmt.Sprintf("after earlier calls in the same process a valid %s mnemonic is rejected by %s (%s): %s", ref.Names[op.L], fnName(op.Fn), errText(res[i].Err), preview(op.Str())),
					Ops: ops[:i+1], Expected: "accepted", Observed: res[i], Detail: historyNote})
				return
			}
		}
	})
	// the concurrent flavour of this monitor (C12 is the full treatment)
	concCalls := e.concurrentSmoke(drv, "C02", e.smokePool("C02", "chk"), e.pick(8, 32), e.pick(300, 1500), e.smokeValidAccepted())

	// identity is not equality: a rejected sentence becomes garbage, is collected, and a VALID
	// sentence of the same byte length is allocated at the very same address (the child retries
	// until the allocator hands that address out again, and says whether it did)
	reused, reusePairs := 0, 0
	parallel(e.pick(4, 24), e.Workers, func(pi int) {
		r := rng.New(e.Seed, "C02-addr-"+itoa(pi))
		var ops []plan.Op
		for k := 0; k < 60; k++ {
			lang := r.Intn(ref.NLang)
			w := e.Model.Words(r.Bytes(ref.EntSizes[r.Intn(5)]), lang)
			bad := append([]string(nil), w...)
			i, j := r.Intn(len(w)), r.Intn(len(w))
			bad[i], bad[j] = bad[j], bad[i]
			if _, st, _ := e.Model.Dec(bad, lang); st == ref.OK {
				continue
			}
			ops = append(ops, plan.Op{I: len(ops), Fn: "chk", L: int64(lang), S: hxs(strings.Join(bad, " "))},
				plan.Op{I: len(ops) + 1, Fn: []string{"chk", "val"}[k%2], L: int64(lang), S: hxs(strings.Join(w, " ")), Reuse: true})
		}
		res, died := e.RunProc(drv, ops, []string{"GOMAXPROCS=1", "VERIF_ENVTAG=GOMAXPROCS=1"}, 0)
		if died != "" || len(res) != len(ops) {
			return
		}
		for i := 1; i < len(res); i += 2 {
			hit := false
			for _, inf := range res[i].Info {
				hit = hit || inf == "address-reused"
			}
			mu.Lock()
			reusePairs++
			if hit {
				reused++
			}
			mu.Unlock()
			if res[i].Panic == "" && !acceptedBy(&ops[i], &res[i]) {
				e.Violate(&Violation{What: fmt.Sprintf("a valid %s mnemonic is rejected (%s) when it is validated right after a rejected sentence of the same byte length whose memory it took over (address reused: %v): %s", ref.Names[ops[i].L], errText(res[i].Err), hit, preview(ops[i].Str())),
					Ops: ops[:i+1], ChildEnv: []string{"GOMAXPROCS=1"}, Expected: "accepted", Observed: res[i], Detail: historyNote})
				return
			}
		}
	})
	// goroutines that each generate from their own window of ONE caller-owned buffer (windows of
	// different goroutines are adjacent) and validate what they got, again and again
	slabCalls := 0
	parallel(e.pick(6, 40), max(1, e.Workers/4), func(pi int) {
		r := rng.New(e.Seed, "C02-slab-"+itoa(pi))
		G := []int{8, 4, 16}[pi%3]
		c := &plan.Conc{GoMaxProcs: []int{16, 2, 4, 3}[pi%4], Loops: e.pick(300, 1500)}
		c.Workers = make([][]plan.Op, G)
		off := 0
		for k := 0; k < 4; k++ {
			for w := 0; w < G; w++ {
				size := ref.EntSizes[(k+w+pi)%5]
				c.Workers[w] = append(c.Workers[w], plan.Op{I: k, Fn: "encchk", L: int64((pi + w) % ref.NLang), E: hx(r.Bytes(size)), SlabOff: off + 1})
				off += size
			}
		}
		c.Slab = off
		cr := e.RunConc(drv, c, "c02-slab-"+itoa(pi), nil, 10*time.Minute)
		if v, inc := cr.hang(); v != "" || inc != "" || cr.Trailer == nil {
			return // calls that do not return are C12's and C14's business
		}
		for i := range cr.Results {
			rr := &cr.Results[i]
			if rr.Panic != "" || rr.Err != nil || rr.Out == "" {
				continue // nothing was returned
			}
			n := max(1, rr.Agg)
			if rr.B == nil || !*rr.B {
				op := c.Workers[rr.G][rr.I]
				e.Violate(&Violation{What: fmt.Sprintf("%d goroutines generating from adjacent windows of one caller-owned buffer (GOMAXPROCS %d): in %d of its calls the mnemonic NewMnemonicByEntropy returned to worker %d is rejected under the same language (%s): %s", G, c.GoMaxProcs, n, rr.G, ref.Names[op.L], preview(string(unhex(rr.Out)))),
					Conc: c, Expected: "CheckMnemonic == nil and IsMnemonicValid == true", Observed: rr})
				return
			}
			mu.Lock()
			slabCalls += n
			mu.Unlock()
		}
	})

	possible := 0
	for range ref.Names {
		possible += 23 * 2048
	}
	if e.Violations() == 0 && kinds.Get("new-default") == 0 {
		fatalInconclusive("C02: no NewMnemonic output was observed")
	}
	if nr := notReturned.Total(); e.Violations() == 0 && nr*2 > kinds.Get("own")+kinds.Get("new-default")+kinds.Get("new-scripted")+kinds.Get("held") {
		fatalInconclusive("C02: the generators returned no mnemonic in %d calls (%v): too little generator output was observed to decide", nr, notReturned.Map())
	}
	e.WriteEvidence("exploration", map[string]any{
		"evaluations":                      stats.Ops,
		"distinct_nontrivial":              dist.Len(),
		"calls_repeated_under_concurrency": concCalls,
		"rule":                             "a case is one generate->check pair: (a) NewMnemonicByEntropy output fed straight into CheckMnemonic and IsMnemonicValid in the child, (b) the reference encoder's sentence for the same entropy (valid by construction, whatever the generator does), (a') a mnemonic held while another one is generated and validated afterwards, (c) NewMnemonic output from the default source and from scripted sources (zero-leading, all-zero, all-ones among them); every case is non-trivial (acceptance is required); distinct = distinct (kind, entropy or sentence, language)",
		"samples":                          smp.List(),
		"pairs_by_kind":                    kinds.Map(),
		"leading_zero_byte_histogram_of_own_pairs": lz.Map(),
		"corpus_classes":                                                                 classes.Map(),
		"language_position_word_accepted":                                                posWordCount,
		"language_position_word_possible_first_23":                                       possible,
		"own_output_differs_from_reference":                                              ownDiffersFromRef.Map(),
		"generator_calls_that_returned_no_mnemonic":                                      notReturned.Map(),
		"calls_inside_histories":                                                         histCalls,
		"valid_sentences_validated_right_after_a_rejected_one_of_the_same_length":        reusePairs,
		"of_which_allocated_at_the_rejected_sentence's_address":                          reused,
		"generate_and_check_pairs_from_adjacent_windows_of_one_buffer_under_concurrency": slabCalls,
		"children":     stats.Children,
		"child_deaths": stats.Deaths,
	}, []string{
		"golden lists are the canonical lists; crypto/sha256; the harness reference encoder",
		"the default randomness source works in this sandbox",
	})
}
