package main

import (
	"bytes"
	"fmt"
	"strings"
	"sync"

	"aaverif/internal/plan"
	"aaverif/internal/ref"
	"aaverif/internal/rng"
)

func init() { register("C05", checkC05) }

type c05exp struct {
	c    EntCase
	base int // >=0: this case is a single-bit flip (or the base itself, bit == -1) of base group number base
	bit  int
}

func checkC05(e *Env) {
	drv := e.BuildDrv(false)
	var mu sync.Mutex
	seen := map[uint64][32]byte{} // sentence hash -> (entropy padded) : collision detector over the whole run
	seenLen := map[uint64]int{}
	baseSent := map[int]string{}
	flipSent := map[int]map[int]string{}
	flipBits := [5]map[int]bool{{}, {}, {}, {}, {}}
	dist := newDistinct()
	smp := newSamples(6)
	decodes := newCounter()
	notReturned := newCounter() // calls that returned no mnemonic (not this property's subject)
	collisionsExamined := 0

	K := e.pick(4, 50)
	stats := e.RunStream(StreamOpts{Drv: drv}, func(emit func(*Item)) {
		e.entropyCorpus("C05", func(c EntCase) {
			emit(&Item{Op: encOp(c), Exp: c05exp{c: c, base: -1}})
		})
		g := 0
		for lang := 0; lang < ref.NLang; lang++ {
			for _, size := range ref.EntSizes {
				r := rng.New(e.Seed, "C05-flip-"+itoa(lang)+"-"+itoa(size))
				for k := 0; k < K; k++ {
					base := r.Bytes(size)
					if k == 0 {
						base = make([]byte, size) // all-zero base: flips of leading bits
					}
					emit(&Item{Op: encOp(EntCase{Ent: base, Lang: lang}), Exp: c05exp{c: EntCase{Ent: base, Lang: lang, Class: "flip-base"}, base: g, bit: -1}})
					for b := 0; b < size*8; b++ {
						f := append([]byte(nil), base...)
						f[b/8] ^= 0x80 >> uint(b%8)
						emit(&Item{Op: encOp(EntCase{Ent: f, Lang: lang}), Exp: c05exp{c: EntCase{Ent: f, Lang: lang, Class: "bit-flip"}, base: g, bit: b}})
					}
					g++
				}
			}
		}
	}, func(it *Item, r *plan.Res) {
		x := it.Exp.(c05exp)
		c := x.c
		if f := failure(r); f != "" {
			// no mnemonic was returned, so there is nothing to decode: whether the generator
			// may fail for valid entropy is C01's, C09's and C14's question
			notReturned.Inc(oneLine(f, 60))
			return
		}
		if r.Err != nil {
			notReturned.Inc("error " + oneLine(errText(r.Err), 60))
			return
		}
		out := string(unhex(r.Out))
		toks := strings.Fields(out)
		back, ok := e.Model.DecodeLoose(toks, c.Lang)
		decodes.Inc(ref.Names[c.Lang])
		if !ok {
			e.Violate(&Violation{What: fmt.Sprintf("mnemonic for entropy %x (%s) cannot be decoded by the standard BIP39 decoding (%d tokens, or a token outside the list): %s", c.Ent, ref.Names[c.Lang], len(toks), preview(out)),
				Ops: []plan.Op{it.Op}, Expected: map[string]string{"decoded_entropy": hx(c.Ent)}, Observed: r})
			return
		}
		if !bytes.Equal(back, c.Ent) {
			e.Violate(&Violation{What: fmt.Sprintf("standard BIP39 decoding of the mnemonic yields %x, not the original entropy %x (%s): %s", back, c.Ent, ref.Names[c.Lang], preview(out)),
				Ops: []plan.Op{it.Op}, Expected: map[string]string{"decoded_entropy": hx(c.Ent), "out_hex": hxs(e.Model.Enc(c.Ent, c.Lang))}, Observed: r})
			return
		}
		// collision detector: same (language, sentence) from two different entropies
		k := fnv(itoa(c.Lang), out)
		var pad [32]byte
		copy(pad[:], c.Ent)
		mu.Lock()
		if prev, dup := seen[k]; dup {
			collisionsExamined++
			if prev != pad || seenLen[k] != len(c.Ent) {
				mu.Unlock()
				e.Violate(&Violation{What: fmt.Sprintf("two distinct entropies %x and %x share the mnemonic %s (%s)", prev[:seenLen[k]], c.Ent, preview(out), ref.Names[c.Lang]), Ops: []plan.Op{it.Op}, Observed: r})
				return
			}
		} else {
			seen[k] = pad
			seenLen[k] = len(c.Ent)
		}
		if x.base >= 0 {
			if x.bit < 0 {
				baseSent[x.base] = out
			} else {
				if flipSent[x.base] == nil {
					flipSent[x.base] = map[int]string{}
				}
				flipSent[x.base][x.bit] = out
				flipBits[sizeIdx(len(c.Ent))][x.bit] = true
			}
		}
		mu.Unlock()
		dist.Add(string(c.Ent), itoa(c.Lang))
		smp.Add(map[string]any{"entropy": hx(c.Ent), "language": ref.Names[c.Lang], "class": c.Class, "sentence": out, "decoded": hx(back)})
	})

	histCalls := e.runHistories(drv, "C05", e.pick(24, 300), 4, func(ops []plan.Op, res []plan.Res) {
		for i := range res {
			op := &ops[i]
			if op.Fn != "enc" || op.L < 0 || op.L >= ref.NLang || !validEntLen(len(op.Entropy())) || res[i].Panic != "" || res[i].Err != nil {
				continue
			}
			out := string(unhex(res[i].Out))
			if back, ok := e.Model.DecodeLoose(strings.Fields(out), int(op.L)); !ok || !bytes.Equal(back, op.Entropy()) {
				e.Violate(&Violation{What: fmt.Sprintf("after earlier calls in the same process the mnemonic for entropy %x (%s) decodes to %x: %s", op.Entropy(), ref.Names[op.L], back, preview(out)),
					Ops: ops[:i+1], Expected: map[string]string{"decoded_entropy": hx(op.Entropy())}, Observed: res[i], Detail: historyNote})
				return
			}
		}
	})
	// several entropies carved out of one caller-owned buffer and encoded one after the other:
	// each sentence must decode to its own slice as the caller wrote it
	slabSentences := e.runSlabs(drv, "C05", e.pick(300, 6000), func(op *plan.Op, j int, want []byte, sentence string) string {
		back, _ := e.Model.DecodeLoose(strings.Fields(sentence), int(op.L))
		if !bytes.Equal(back, want) {
			return fmt.Sprintf("the mnemonic decodes to %x, the caller's slice held %x", back, want)
		}
		return ""
	})
	// the concurrent flavour of this monitor (C12 is the full treatment)
	concCalls := e.concurrentSmoke(drv, "C05", e.smokePool("C05", "enc"), e.pick(8, 32), e.pick(300, 1500), e.smokeEncDecode())

	// every single-bit flip must change the mnemonic
	flipsCompared := 0
	for g, fs := range flipSent {
		b, ok := baseSent[g]
		if !ok {
			continue
		}
		for bit, s := range fs {
			flipsCompared++
			if s == b {
				e.Violate(&Violation{What: fmt.Sprintf("flipping entropy bit %d leaves the mnemonic unchanged: %s", bit, preview(b)), Detail: map[string]any{"group": g, "bit": bit}})
			}
		}
	}
	if nr := notReturned.Total(); e.Violations() == 0 && int64(nr)*2 > stats.Ops {
		fatalInconclusive("C05: NewMnemonicByEntropy returned no mnemonic in %d of %d calls (%v): too little output was observed to decide", nr, stats.Ops, notReturned.Map())
	}
	bitsCovered := map[string]int{}
	for s, m := range flipBits {
		bitsCovered[itoa(ref.EntSizes[s]*8)] = len(m)
		if e.Violations() == 0 && notReturned.Total() == 0 && len(m) != ref.EntSizes[s]*8 {
			fatalInconclusive("C05: only %d of %d bit positions were flipped at size %d", len(m), ref.EntSizes[s]*8, ref.EntSizes[s])
		}
	}
	e.WriteEvidence("exploration", map[string]any{
		"evaluations":                      stats.Ops,
		"distinct_nontrivial":              dist.Len(),
		"calls_repeated_under_concurrency": concCalls,
		"rule":                             "a case is (entropy, language): the C01 corpus plus, for K base entropies per language x size (K=4 quick, 50 thorough; the first base is all-zero), the base and all ENT single-bit flips; each returned sentence is decoded by the independent bit-array decoder over the golden lists and compared with the entropy passed in; a run-wide map (language, sentence) -> entropy detects collisions; all cases are non-trivial; distinct = distinct (entropy, language)",
		"samples":                          smp.List(),
		"decodes_per_language":             decodes.Map(),
		"calls_that_returned_no_mnemonic":  notReturned.Map(),
		"flip_groups":                      len(baseSent),
		"single_bit_flips_compared":        flipsCompared,
		"bit_positions_flipped_per_width":  bitsCovered,
		"sentences_in_collision_map":       len(seen),
		"repeated_sentences_examined":      collisionsExamined,
		"calls_inside_histories":           histCalls,
		"sentences_from_entropies_carved_out_of_one_buffer": slabSentences,
		"children":     stats.Children,
		"child_deaths": stats.Deaths,
	}, []string{"golden lists are the canonical lists", "the harness reference decoder (self-tested on published vectors)"})
}

// runSlabs encodes, in child processes, several entropies carved out of one
// caller-owned buffer one after the other ("encslab") and hands every sentence
// with the slice the caller wrote to judge (which returns "" when satisfied). It
// also checks that the buffer itself is unchanged afterwards.
func (e *Env) runSlabs(drv, label string, slabs int, judge func(op *plan.Op, j int, want []byte, sentence string) string) int {
	rs := rng.New(e.Seed, label+"-slab")
	var slabOps []plan.Op
	for k := 0; k < slabs; k++ {
		size := ref.EntSizes[k%5]
		slabOps = append(slabOps, plan.Op{I: k, Fn: "encslab", L: int64(k % ref.NLang), N: int64(size), E: hx(rs.Bytes(size * (2 + k%5)))})
	}
	var mu sync.Mutex
	sentences := 0
	parallel(16, e.Workers, func(part int) {
		var ops []plan.Op
		for k := part; k < len(slabOps); k += 16 {
			op := slabOps[k]
			op.I = len(ops)
			ops = append(ops, op)
		}
		res, died := e.RunProc(drv, ops, nil, 0)
		if died != "" {
			e.Violate(&Violation{What: "the process died while encoding entropies carved from one buffer: " + oneLine(died, 300), Ops: ops[:min(len(res)+1, len(ops))]})
			return
		}
		for i := range res {
			op := &ops[i]
			buf, size := op.Entropy(), int(op.N)
			sents := strings.Split(string(unhex(res[i].Out)), "\n")
			for j := 0; (j+1)*size <= len(buf); j++ {
				want := buf[j*size : (j+1)*size]
				sentence := ""
				if j < len(sents) {
					sentence = sents[j]
				}
				if why := judge(op, j, want, sentence); why != "" {
					e.Violate(&Violation{What: fmt.Sprintf("entropy %d of %d carved from one %d-byte caller-owned buffer (%s): %s — encoding an earlier slice changed memory beyond it", j, len(buf)/size, len(buf), ref.Names[op.L], why),
						Ops: []plan.Op{*op}, Expected: map[string]string{"entropy": hx(want)}, Observed: res[i]})
					return
				}
				mu.Lock()
				sentences++
				mu.Unlock()
			}
			if res[i].IA != bufAfterHex(buf, false) {
				e.Violate(&Violation{What: fmt.Sprintf("the caller's %d-byte buffer was modified while entropies carved from it were encoded: before %s, afterwards %s", len(buf), bufAfterHex(buf, false), res[i].IA), Ops: []plan.Op{*op}, Observed: res[i]})
				return
			}
		}
	})
	return sentences
}
