package main

import (
	"fmt"
	"sync"

	"aaverif/internal/plan"
	"aaverif/internal/ref"
)

func init() { register("C10", checkC10) }

type c10exp struct {
	grp     *spellGroup
	variant int // -1: the base
}

type c10state struct {
	haveBase bool
	accepted bool
	baseRes  *plan.Res
	pending  []c10pend
}

type c10pend struct {
	variant  int
	accepted bool
	res      *plan.Res
	op       plan.Op
}

func checkC10(e *Env) {
	drv := e.BuildDrv(false)
	tab := e.Spellings()
	u := e.Uni()
	var mu sync.Mutex
	states := map[*spellGroup]*c10state{}
	covered := map[string]map[int]bool{} // "lang/form" -> word indices compared in that form
	pairs := newCounter()
	skipped := newCounter()
	nontrivial := newDistinct()
	kinds := newCounter()
	seps := newCounter()
	verdicts := newCounter()
	smp := newSamples(8)
	wordCounts := newCounter()

	sizes := []int{16, 20, 24, 28, 32}
	compare := func(grp *spellGroup, baseAcc bool, baseOp plan.Op, p c10pend) {
		v := grp.variants[p.variant]
		pairs.Inc(grp.kind)
		if v.s != grp.base {
			nontrivial.Add(grp.base, v.s, itoa(grp.lang))
		}
		if p.accepted != baseAcc {
			e.Violate(&Violation{
				What: fmt.Sprintf("two spellings with the same NFKD form get different verdicts under %s: %s is %s but %s (form %s) is %s",
					ref.Names[grp.lang], preview(grp.base), accWord(baseAcc), preview(v.s), v.form, accWord(p.accepted)),
				Ops: []plan.Op{baseOp, p.op}, Expected: "same verdict", Observed: p.res})
			return
		}
		if grp.kind == "valid" && !p.accepted {
			// both rejected although the sentence is reference-valid: C02's business for
			// the base; for the property's "in particular" clause report it here too
			e.Violate(&Violation{What: fmt.Sprintf("valid %s mnemonic is rejected in spelling %s: %s", ref.Names[grp.lang], v.form, preview(v.s)), Ops: []plan.Op{p.op}, Expected: "accepted", Observed: p.res})
			return
		}
		verdicts.Inc(grp.kind + "/" + accWord(p.accepted))
		if grp.idx != nil && grp.kind == "valid" && v.form != "mixed" {
			key := ref.Names[grp.lang] + "/" + v.form
			mu.Lock()
			if covered[key] == nil {
				covered[key] = map[int]bool{}
			}
			for _, i := range grp.idx {
				if tab.form[grp.lang][v.form][i] != e.Model.List[grp.lang][i] {
					covered[key][i] = true
				}
			}
			mu.Unlock()
			seps.Inc(fmt.Sprintf("U+%04X", []rune(v.sep)[0]))
			wordCounts.Inc(itoa(len(grp.idx)))
		}
		if v.s != grp.base {
			smp.Add(map[string]any{"language": ref.Names[grp.lang], "kind": grp.kind, "form": v.form, "base": preview(grp.base), "variant": preview(v.s), "verdict": accWord(p.accepted)})
		}
	}

	stats := e.RunStream(StreamOpts{Drv: drv}, func(emit func(*Item)) {
		e.spellCorpus("C10", sizes, true, true, e.pick(3000, 200000), func(grp *spellGroup) {
			kinds.Inc(grp.kind)
			if !u.InDomain(grp.base, maxRun) {
				skipped.Inc("base-outside-oracle-domain")
				return
			}
			// precondition, decided by the oracle: same NFKD form as the base
			ss := make([]string, 0, len(grp.variants)+1)
			ss = append(ss, grp.base)
			for _, v := range grp.variants {
				ss = append(ss, v.s)
			}
			n, ok := e.NFKD(ss)
			kept := grp.variants[:0]
			for i, v := range grp.variants {
				if !ok[i+1] || !ok[0] || n[i+1] != n[0] || !u.InDomain(v.s, maxRun) {
					skipped.Inc("precondition-false:" + v.form)
					continue
				}
				kept = append(kept, v)
			}
			grp.variants = kept
			if len(kept) == 0 {
				return
			}
			mu.Lock()
			states[grp] = &c10state{}
			mu.Unlock()
			emit(&Item{Op: plan.Op{Fn: "chkval", L: int64(grp.lang), S: hxs(grp.base)}, Exp: c10exp{grp, -1}})
			for i, v := range grp.variants {
				emit(&Item{Op: plan.Op{Fn: "chkval", L: int64(grp.lang), S: hxs(v.s)}, Exp: c10exp{grp, i}})
			}
		})
	}, func(it *Item, r *plan.Res) {
		x := it.Exp.(c10exp)
		if f := failure(r); f != "" {
			skipped.Inc("crash-not-judged-here")
			return
		}
		acc := r.Err == nil
		mu.Lock()
		st := states[x.grp]
		if x.variant < 0 {
			st.haveBase, st.accepted, st.baseRes = true, acc, r
			pend := st.pending
			st.pending = nil
			mu.Unlock()
			if x.grp.kind == "valid" && !acc {
				skipped.Inc("base-of-valid-sentence-rejected")
			}
			for _, p := range pend {
				compare(x.grp, acc, it.Op, p)
			}
			return
		}
		p := c10pend{variant: x.variant, accepted: acc, res: r, op: it.Op}
		if !st.haveBase {
			st.pending = append(st.pending, p)
			mu.Unlock()
			return
		}
		baseAcc := st.accepted
		mu.Unlock()
		compare(x.grp, baseAcc, plan.Op{Fn: "chkval", L: int64(x.grp.lang), S: hxs(x.grp.base)}, p)
	})

	// coverage of (language, word, form) triples whose spelling is non-trivial
	covCount := map[string]string{}
	total, got := 0, 0
	for lang := 0; lang < ref.NLang; lang++ {
		for _, f := range spellForms {
			key := ref.Names[lang] + "/" + f
			want := tab.nontrivial[key]
			have := len(covered[key])
			covCount[key] = fmt.Sprintf("%d of %d", have, want)
			total += want
			got += have
			if e.Violations() == 0 && have != want {
				fatalInconclusive("C10: only %d of %d non-trivial spellings compared for %s", have, want, key)
			}
		}
	}
	e.WriteEvidence("exploration", map[string]any{
		"evaluations":                    stats.Ops,
		"distinct_nontrivial":            nontrivial.Len(),
		"rule":                           "a case is a pair (base, variant) whose NFKD forms are equal according to CPython (pairs failing this precondition are skipped and counted, never asserted): valid sentences containing every list word of every language at every word count, spelled in NFC, NFD, NFKC, NFKD, with every maximal single-code-point pre-image (full-width, ligature, precomposed, Hangul syllable, compatibility ideograph; first and random choice), mixed forms, joined by U+0020, U+3000 or another code point that normalises to U+0020; wrong-checksum and unknown-word sentences in the same spellings; random Unicode strings with their four normal forms and a random pre-image respelling; non-trivial = the two strings differ bytewise; distinct by (base, variant, language)",
		"samples":                        smp.List(),
		"groups_by_kind":                 kinds.Map(),
		"pairs_compared":                 pairs.Map(),
		"pairs_skipped":                  skipped.Map(),
		"verdicts":                       verdicts.Map(),
		"word_form_coverage":             covCount,
		"nontrivial_word_forms_compared": got,
		"nontrivial_word_forms_possible": total,
		"separators_used":                seps.Map(),
		"word_counts":                    wordCounts.Map(),
		"python_normalisations":          e.Py().Calls,
		"children":                       stats.Children,
	}, []string{
		"CPython unicodedata NFKD decides which pairs are equivalent (Unicode 14; assigned code points; non-starter runs <= 25)",
		"only the accept/reject verdict is compared; error kinds and messages belong to C15",
	})
}

func accWord(b bool) string {
	if b {
		return "accepted"
	}
	return "rejected"
}
