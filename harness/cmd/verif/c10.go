package main

import (
	"fmt"
	"sync"

	"aaverif/internal/plan"
	"aaverif/internal/ref"
	"aaverif/internal/rng"
)

func init() { register("C10", checkC10) }

type c10exp struct {
	grp     *spellGroup
	variant int // -1: the base
}

type c10state struct {
	haveBase bool
	accepted bool
	crashed  bool
	baseRes  *plan.Res
	pending  []c10pend
}

func (st *c10state) panicOf() string {
	if st != nil && st.baseRes != nil {
		return st.baseRes.Panic
	}
	return ""
}

type c10pend struct {
	variant  int
	accepted bool
	crashed  bool
	res      *plan.Res
	op       plan.Op
}

func checkC10(e *Env) {
	drv := e.BuildDrv(false)
	tab := e.Spellings()
	u := e.Uni()
	var mu sync.Mutex
	states := map[*spellGroup]*c10state{}
	covered := map[string]map[int]bool{} // "lang/form" -> word indices compared in that form
	pairs := newCounter()
	skipped := newCounter()
	nontrivial := newDistinct()
	kinds := newCounter()
	seps := newCounter()
	verdicts := newCounter()
	smp := newSamples(8)
	wordCounts := newCounter()

	sizes := []int{16, 20, 24, 28, 32}
	compare := func(grp *spellGroup, baseAcc bool, baseOp plan.Op, p c10pend) {
		v := grp.variants[p.variant]
		pairs.Inc(grp.kind)
		if v.s != grp.base {
			nontrivial.Add(grp.base, v.s, itoa(grp.lang))
		}
		if p.accepted != baseAcc {
			e.Violate(&Violation{
				What: fmt.Sprintf("two spellings with the same NFKD form get different verdicts under %s: %s is %s but %s (form %s) is %s",
					ref.Names[grp.lang], preview(grp.base), accWord(baseAcc), preview(v.s), v.form, accWord(p.accepted)),
				Ops: []plan.Op{baseOp, p.op}, Expected: "same verdict", Observed: p.res})
			return
		}
		if grp.kind == "valid" && !p.accepted {
			// both rejected although the sentence is reference-valid: C02's business for
			// the base; for the property's "in particular" clause report it here too
			e.Violate(&Violation{What: fmt.Sprintf("valid %s mnemonic is rejected in spelling %s: %s", ref.Names[grp.lang], v.form, preview(v.s)), Ops: []plan.Op{p.op}, Expected: "accepted", Observed: p.res})
			return
		}
		verdicts.Inc(grp.kind + "/" + accWord(p.accepted))
		if grp.idx != nil && grp.kind == "valid" && v.form != "mixed" {
			key := ref.Names[grp.lang] + "/" + v.form
			mu.Lock()
			if covered[key] == nil {
				covered[key] = map[int]bool{}
			}
			for _, i := range grp.idx {
				if tab.form[grp.lang][v.form][i] != e.Model.List[grp.lang][i] {
					covered[key][i] = true
				}
			}
			mu.Unlock()
			seps.Inc(fmt.Sprintf("U+%04X", []rune(v.sep)[0]))
			wordCounts.Inc(itoa(len(grp.idx)))
		}
		if v.s != grp.base {
			smp.Add(map[string]any{"language": ref.Names[grp.lang], "kind": grp.kind, "form": v.form, "base": preview(grp.base), "variant": preview(v.s), "verdict": accWord(p.accepted)})
		}
	}

	reportCrashPair := func(grp *spellGroup, baseCrashed bool, baseOp plan.Op, p c10pend, basePanic string) {
		v := grp.variants[p.variant]
		which := map[bool]string{true: preview(grp.base), false: preview(v.s)}[baseCrashed]
		e.Violate(&Violation{
			What: fmt.Sprintf("two spellings with the same NFKD form are not treated alike under %s: %s makes CheckMnemonic panic while its equivalent (form %s) gets an ordinary verdict: %s", ref.Names[grp.lang], which, v.form, oneLine(p.res.Panic+basePanic, 200)),
			Ops: []plan.Op{baseOp, p.op}, Expected: "same verdict", Observed: p.res})
	}
	stats := e.RunStream(StreamOpts{Drv: drv}, func(emit func(*Item)) {
		e.spellCorpus("C10", sizes, true, true, e.pick(3000, 200000), func(grp *spellGroup) {
			kinds.Inc(grp.kind)
			if !u.InDomain(grp.base, maxRun) {
				skipped.Inc("base-outside-oracle-domain")
				return
			}
			// precondition, decided by the oracle: same NFKD form as the base
			ss := make([]string, 0, len(grp.variants)+1)
			ss = append(ss, grp.base)
			for _, v := range grp.variants {
				ss = append(ss, v.s)
			}
			n, ok := e.NFKD(ss)
			kept := grp.variants[:0]
			for i, v := range grp.variants {
				if !ok[i+1] || !ok[0] || n[i+1] != n[0] || !u.InDomain(v.s, maxRun) {
					skipped.Inc("precondition-false:" + v.form)
					continue
				}
				kept = append(kept, v)
			}
			grp.variants = kept
			if len(kept) == 0 {
				return
			}
			mu.Lock()
			states[grp] = &c10state{}
			mu.Unlock()
			emit(&Item{Op: plan.Op{Fn: "chkval", L: int64(grp.lang), S: hxs(grp.base)}, Exp: c10exp{grp, -1}})
			for i, v := range grp.variants {
				emit(&Item{Op: plan.Op{Fn: "chkval", L: int64(grp.lang), S: hxs(v.s)}, Exp: c10exp{grp, i}})
			}
		})
	}, func(it *Item, r *plan.Res) {
		x := it.Exp.(c10exp)
		if r.Died != "" || r.Hang != "" {
			skipped.Inc("crash-not-judged-here")
			return
		}
		// a panic is no verdict; it is compared like one (a spelling that gets a verdict and an
		// equivalent spelling that makes the call panic are not treated alike)
		crashed := r.Panic != ""
		acc := r.Err == nil && !crashed
		mu.Lock()
		st := states[x.grp]
		if x.variant < 0 {
			st.haveBase, st.accepted, st.baseRes, st.crashed = true, acc, r, crashed
			pend := st.pending
			st.pending = nil
			mu.Unlock()
			if x.grp.kind == "valid" && !acc {
				skipped.Inc("base-of-valid-sentence-rejected")
			}
			for _, p := range pend {
				if crashed != p.crashed {
					reportCrashPair(x.grp, crashed, it.Op, p, r.Panic)
				} else if !crashed {
					compare(x.grp, acc, it.Op, p)
				}
			}
			return
		}
		p := c10pend{variant: x.variant, accepted: acc, crashed: crashed, res: r, op: it.Op}
		if !st.haveBase {
			st.pending = append(st.pending, p)
			mu.Unlock()
			return
		}
		baseAcc, baseCrashed, basePanic := st.accepted, st.crashed, st.panicOf()
		mu.Unlock()
		baseOp := plan.Op{Fn: "chkval", L: int64(x.grp.lang), S: hxs(x.grp.base)}
		if baseCrashed != p.crashed {
			reportCrashPair(x.grp, baseCrashed, baseOp, p, basePanic)
		} else if !p.crashed {
			compare(x.grp, baseAcc, baseOp, p)
		}
	})

	// histories in one process: a non-normalised spelling asked under one language and then
	// under another, each followed by its NFKD spelling under the same language — the two
	// verdicts of such a pair must agree whatever was asked before
	nh := e.pick(40, 400)
	histPairs := newCounter()
	parallel(nh, e.Workers, func(h int) {
		r := rng.New(e.Seed, "C10-hist-"+itoa(h))
		var ops []plan.Op
		add := func(l int, sp string) {
			ops = append(ops, plan.Op{I: len(ops), Fn: "chk", L: int64(l), S: hxs(sp)})
		}
		type pair struct{ variant, base int }
		var pairs []pair
		for k := 0; k < 6; k++ {
			l := []int{3, 5, 6, 7, 3, 7}[(h+k)%6] // French, Japanese, Korean, Spanish
			l2 := []int{7, 6, 5, 3, 8, 2}[(h+k)%6]
			size := ref.EntSizes[r.Intn(5)]
			first := make([]int, size*3/4-1)
			for i := range first {
				first[i] = r.Intn(2048)
			}
			idx := e.sentenceWith(size, first, r.Intn(1<<uint(11-size/4)), l)
			base := e.spellSentence(l, idx, "NFKD", " ", r)
			for _, f := range []string{"NFC", "preimage-first", "NFKC"} {
				sep := []string{" ", "\u3000"}[r.Intn(2)]
				v := e.spellSentence(l, idx, f, sep, r)
				if v == base {
					continue
				}
				if n, ok := e.NFKD1(v); !ok || n != base {
					continue
				}
				for _, lang := range []int{l, l2, l} {
					add(lang, v)
					add(lang, base)
					pairs = append(pairs, pair{len(ops) - 2, len(ops) - 1})
				}
			}
		}
		if len(ops) == 0 {
			return
		}
		res, died := e.RunProc(drv, ops, nil, 0)
		if died != "" {
			skipped.Inc("history-process-died")
			return
		}
		for _, pr := range pairs {
			a, b := &res[pr.variant], &res[pr.base]
			if a.Panic != "" || b.Panic != "" {
				continue
			}
			histPairs.Inc("pairs")
			if (a.Err == nil) != (b.Err == nil) {
				e.Violate(&Violation{What: fmt.Sprintf("after earlier calls in the same process, two spellings with the same NFKD form get different verdicts under %s: %s is %s but its NFKD spelling %s is %s",
					ref.Names[ops[pr.variant].L], preview(ops[pr.variant].Str()), accWord(a.Err == nil), preview(ops[pr.base].Str()), accWord(b.Err == nil)),
					Ops: ops[:pr.base+1], Expected: "same verdict", Observed: []any{a, b}, Detail: "the last two calls are the pair; the preceding ones are their history"})
				return
			}
		}
	})

	// the concurrent flavour of this monitor (C12 is the full treatment)
	// histories with the other functions' calls in between: within one process, validations
	// under the same language of strings with equal NFKD forms must agree
	judgeHist := func(ops []plan.Op, res []plan.Res) {
		type seenV struct {
			i   int
			acc bool
		}
		first := map[string]seenV{}
		for i := range res {
			op := &ops[i]
			if (op.Fn != "chk" && op.Fn != "val") || !supportedLang(op.L) || res[i].Panic != "" {
				continue
			}
			n, ok := e.NFKD([]string{op.Str()})
			if !ok[0] || !u.InDomain(op.Str(), maxRun) {
				continue
			}
			acc := acceptedBy(op, &res[i])
			key := itoa(int(op.L)) + "\x00" + n[0]
			if f, seen := first[key]; !seen {
				first[key] = seenV{i, acc}
			} else if f.acc != acc {
				e.Violate(&Violation{What: fmt.Sprintf("within one process two spellings with the same NFKD form get different verdicts under %s: %s is %s (call %d) but %s is %s (call %d)", ref.Names[op.L], preview(ops[f.i].Str()), accWord(f.acc), f.i, preview(op.Str()), accWord(acc), i),
					Ops: ops[:i+1], Expected: "same verdict", Observed: res[i], Detail: historyNote})
				return
			}
		}
	}
	histCalls := e.runHistories(drv, "C10", e.pick(24, 300), 3, judgeHist)
	kinds.Add("calls_inside_cross_function_histories", histCalls)
	// many distinct spellings that need normalising, then the same ones again (and in reverse):
	// a bounded cache of normal forms must not answer from another string's entry
	wrapCalls := 0
	wrapSizes := []int{20, 40, 150, 600, e.pick(2500, 12000)}
	parallel(len(wrapSizes)*2, e.Workers, func(k int) {
		g := &seqGen{e: e, r: rng.New(e.Seed, "C10-wrap-"+itoa(k)), bufs: map[int][]byte{}}
		g.cacheWrap(k%2, wrapSizes[k/2])
		res, died := e.RunProc(drv, g.ops, nil, 0)
		if died != "" || len(res) != len(g.ops) {
			return // crashes are not judged here
		}
		judgeHist(g.ops, res)
		mu.Lock()
		wrapCalls += len(res)
		mu.Unlock()
	})
	kinds.Add("calls_inside_repeat_after_many_distinct_spellings_histories", wrapCalls)
	concCalls := e.concurrentSmoke(drv, "C10", e.smokePool("C10", "chk"), e.pick(2, 12), e.pick(300, 1500), e.smokeAgree("chk"))

	// coverage of (language, word, form) triples whose spelling is non-trivial
	covCount := map[string]string{}
	total, got := 0, 0
	for lang := 0; lang < ref.NLang; lang++ {
		for _, f := range spellForms {
			key := ref.Names[lang] + "/" + f
			want := tab.nontrivial[key]
			have := len(covered[key])
			covCount[key] = fmt.Sprintf("%d of %d", have, want)
			total += want
			got += have
			if e.Violations() == 0 && have != want {
				fatalInconclusive("C10: only %d of %d non-trivial spellings compared for %s", have, want, key)
			}
		}
	}
	e.WriteEvidence("exploration", map[string]any{
		"evaluations":                      stats.Ops,
		"distinct_nontrivial":              nontrivial.Len(),
		"calls_repeated_under_concurrency": concCalls,
		"rule":                             "a case is a pair (base, variant) whose NFKD forms are equal according to CPython (pairs failing this precondition are skipped and counted, never asserted): valid sentences containing every list word of every language at every word count, spelled in NFC, NFD, NFKC, NFKD, with every maximal single-code-point pre-image (full-width, ligature, precomposed, Hangul syllable, compatibility ideograph; first and random choice), mixed forms, joined by U+0020, U+3000 or another code point that normalises to U+0020; wrong-checksum and unknown-word sentences in the same spellings; random Unicode strings with their four normal forms and a random pre-image respelling; histories in one process in which a non-normalised spelling is asked under one language, then under another, each time followed by its NFKD spelling; non-trivial = the two strings differ bytewise; distinct by (base, variant, language)",
		"samples":                          smp.List(),
		"groups_by_kind":                   kinds.Map(),
		"pairs_compared":                   pairs.Map(),
		"pairs_skipped":                    skipped.Map(),
		"verdicts":                         verdicts.Map(),
		"word_form_coverage":               covCount,
		"nontrivial_word_forms_compared":   got,
		"nontrivial_word_forms_possible":   total,
		"separators_used":                  seps.Map(),
		"word_counts":                      wordCounts.Map(),
		"python_normalisations":            e.Py().Calls,
		"children":                         stats.Children,
	}, []string{
		"CPython unicodedata NFKD decides which pairs are equivalent (Unicode 14; assigned code points; non-starter runs <= 25)",
		"only the accept/reject verdict is compared; error kinds and messages belong to C15",
	})
}

func accWord(b bool) string {
	if b {
		return "accepted"
	}
	return "rejected"
}
