package main

import (
	"bufio"
	"fmt"
	"os"
	"path/filepath"
	"strings"
)

// Finding is one line of /verif/KNOWN_FINDINGS.txt. The file is committed and
// never written at run time.
//
//	known: property=<id> key=<witness key> <what fails>
//	fixed: property=<id> <commit> <what failed>
//
// A known line suppresses exactly the violation whose witness key it names; a
// fixed line suppresses nothing.
type Finding struct {
	Kind     string
	Property string
	Key      string
	Text     string
}

func (e *Env) loadFindings() {
	f, err := os.Open(filepath.Join(e.Verif, "KNOWN_FINDINGS.txt"))
	if err != nil {
		return
	}
	defer f.Close()
	sc := bufio.NewScanner(f)
	sc.Buffer(make([]byte, 1<<20), 1<<20)
	for sc.Scan() {
		l := strings.TrimSpace(sc.Text())
		if l == "" || l[0] == '#' {
			continue
		}
		var fd Finding
		switch {
		case strings.HasPrefix(l, "known:"):
			fd.Kind = "known"
		case strings.HasPrefix(l, "fixed:"):
			fd.Kind = "fixed"
		default:
			continue
		}
		rest := strings.Fields(l[6:])
		var text []string
		for _, w := range rest {
			switch {
			case strings.HasPrefix(w, "property=") && fd.Property == "":
				fd.Property = w[9:]
			case strings.HasPrefix(w, "key=") && fd.Key == "" && fd.Kind == "known":
				fd.Key = w[4:]
			default:
				text = append(text, w)
			}
		}
		fd.Text = strings.Join(text, " ")
		e.findings = append(e.findings, fd)
	}
}

// KnownKeys returns the witness keys listed as known for this property.
func (e *Env) KnownKeys() []Finding {
	var out []Finding
	for _, f := range e.findings {
		if f.Kind == "known" && f.Property == e.Prop {
			out = append(out, f)
		}
	}
	return out
}

// IsKnown reports whether a violation with this witness key is listed.
func (e *Env) IsKnown(key string) (Finding, bool) {
	for _, f := range e.findings {
		if f.Kind == "known" && f.Property == e.Prop && f.Key == key {
			return f, true
		}
	}
	return Finding{}, false
}

// ReportKnown prints the KNOWN-FINDING line for a listed finding that still fails.
func (e *Env) ReportKnown(f Finding, observed string) {
	line := fmt.Sprintf("KNOWN-FINDING: property=%s %s [key=%s]", e.Prop, f.Text, f.Key)
	fmt.Println(line)
	e.mu.Lock()
	e.known = append(e.known, line+" ["+observed+"]")
	e.mu.Unlock()
}
