package main

import (
	"strings"
	"sync"

	"aaverif/internal/ref"
	"aaverif/internal/rng"
)

// Spelling forms of list words used by C10 and C11.
var spellForms = []string{"NFC", "NFD", "NFKC", "NFKD", "preimage-first", "preimage-random"}

// spellTable holds every list word in every form.
type spellTable struct {
	form       [ref.NLang]map[string][]string // form name -> 2048 spellings
	nontrivial map[string]int                 // "lang/form" -> number of words whose spelling differs bytewise
}

var spellOnce sync.Once
var spellTab *spellTable

// Spellings computes (once) all forms of all 20 480 list words. The four
// normal forms come from CPython; the pre-image forms replace every maximal
// substring that is the NFKD image of a single code point (full-width and
// mathematical letters, ligatures, precomposed letters, Hangul syllables,
// CJK compatibility ideographs, ...).
func (e *Env) Spellings() *spellTable {
	spellOnce.Do(func() {
		g := e.Gen()
		py := e.Py()
		t := &spellTable{nontrivial: map[string]int{}}
		for lang := 0; lang < ref.NLang; lang++ {
			words := e.Model.List[lang]
			t.form[lang] = map[string][]string{}
			for _, f := range []string{"NFC", "NFD", "NFKC", "NFKD"} {
				o, ok := py.Normalize(f, words)
				for i := range ok {
					if !ok[i] {
						fatalInconclusive("golden word is not valid UTF-8")
					}
				}
				t.form[lang][f] = o
			}
			for i, w := range words {
				if t.form[lang]["NFKD"][i] != w {
					fatalInconclusive("golden word %q of %s is not NFKD-stable according to CPython", w, ref.Names[lang])
				}
			}
			first := make([]string, len(words))
			random := make([]string, len(words))
			r := rng.New(e.Seed, "spell-"+itoa(lang))
			for i, w := range words {
				first[i], _ = g.Respell(nil, w, 1, 1)
				random[i], _ = g.Respell(r, w, 2, 3)
			}
			t.form[lang]["preimage-first"] = first
			t.form[lang]["preimage-random"] = random
			for f, l := range t.form[lang] {
				n := 0
				for i := range l {
					if l[i] != words[i] {
						n++
					}
				}
				t.nontrivial[ref.Names[lang]+"/"+f] = n
			}
		}
		spellTab = t
	})
	return spellTab
}

// spellVariant is one alternative spelling of a base string.
type spellVariant struct {
	s    string
	form string
	sep  string
}

// spellGroup is a base string (NFKD words joined by U+0020) and spellings
// that are meant to have the same NFKD form.
type spellGroup struct {
	lang     int
	kind     string // valid | bad-checksum | unknown-word | random
	base     string
	idx      []int // list indices of the words of the base (nil for random strings)
	variants []spellVariant
}

// sentenceWith returns a reference-valid sentence whose first n-1 words have
// the given indices.
func (e *Env) sentenceWith(size int, first []int, lastTop int, lang int) []int {
	return ref.Indices(entropyFromIndices(size, first, lastTop))
}

func (e *Env) spellSentence(lang int, idx []int, form, sep string, r *rng.R) string {
	t := e.Spellings()
	w := make([]string, len(idx))
	for i, v := range idx {
		f := form
		if form == "mixed" {
			f = spellForms[r.Intn(len(spellForms))]
		}
		w[i] = t.form[lang][f][v]
	}
	return strings.Join(w, sep)
}

// spellCorpus emits groups covering every list word in every form. sizes says
// which entropy sizes to use (word counts); perSizeAll makes every word
// appear at every listed size, otherwise sizes are rotated.
func (e *Env) spellCorpus(label string, sizes []int, perSizeAll bool, withNearMiss bool, randomPairs int, emit func(*spellGroup)) {
	g := e.Gen()
	seps := []string{" ", "\u3000"}
	for lang := 0; lang < ref.NLang; lang++ {
		r := rng.New(e.Seed, label+"-"+itoa(lang))
		runs := 1
		if perSizeAll {
			runs = len(sizes)
		}
		sentenceNo := 0
		for run := 0; run < runs; run++ {
			next := 0
			for next < 2048 {
				size := sizes[(sentenceNo+run)%len(sizes)]
				if perSizeAll {
					size = sizes[run]
				}
				n := size * 3 / 4
				first := make([]int, n-1)
				for i := range first {
					first[i] = (next + i) % 2048
				}
				next += n - 1
				sentenceNo++
				idx := e.sentenceWith(size, first, r.Intn(1<<uint(11-size/4)), lang)
				grp := &spellGroup{lang: lang, kind: "valid", idx: idx}
				grp.base = e.spellSentence(lang, idx, "NFKD", " ", r)
				for _, f := range spellForms {
					for _, sep := range seps {
						grp.variants = append(grp.variants, spellVariant{s: e.spellSentence(lang, idx, f, sep, r), form: f, sep: sep})
					}
				}
				grp.variants = append(grp.variants, spellVariant{s: e.spellSentence(lang, idx, "mixed", " ", r), form: "mixed", sep: " "})
				// exactly k of the separators typed as another space-like code point (so that the
				// number of U+0020-separated pieces is itself a plausible word count)
				for _, k := range []int{1, 3, 6, 9, 12} {
					if k >= len(idx) {
						continue
					}
					ws := strings.Split(e.spellSentence(lang, idx, "NFKD", "\x00", r), "\x00")
					alt := []string{"\u3000", "\u00a0", "\u2003"}[(k+sentenceNo)%3]
					var sb strings.Builder
					for i, w := range ws {
						if i > 0 {
							// spread the k alternative separators evenly
							if (i*k)/(len(ws)-1) != ((i-1)*k)/(len(ws)-1) {
								sb.WriteString(alt)
							} else {
								sb.WriteString(" ")
							}
						}
						sb.WriteString(w)
					}
					grp.variants = append(grp.variants, spellVariant{s: sb.String(), form: "NFKD", sep: alt})
				}
				// another code point that normalises to U+0020 as separator
				sl := string(g.spaceLike[r.Intn(len(g.spaceLike))])
				grp.variants = append(grp.variants, spellVariant{s: e.spellSentence(lang, idx, "NFC", sl, r), form: "NFC", sep: sl})
				emit(grp)
				if withNearMiss && sentenceNo%4 == 0 {
					// wrong checksum: same words, last word replaced by its neighbour
					bad := append([]int(nil), idx...)
					bad[len(bad)-1] ^= 1
					gb := &spellGroup{lang: lang, kind: "bad-checksum", idx: bad}
					gb.base = e.spellSentence(lang, bad, "NFKD", " ", r)
					for _, f := range spellForms {
						gb.variants = append(gb.variants, spellVariant{s: e.spellSentence(lang, bad, f, seps[r.Intn(2)], r), form: f})
					}
					emit(gb)
					// unknown word: a list word with a letter appended, spelled in each form
					gu := &spellGroup{lang: lang, kind: "unknown-word"}
					pos := r.Intn(len(idx))
					t := e.Spellings()
					mk := func(f, sep string) string {
						w := make([]string, len(idx))
						for i, v := range idx {
							w[i] = t.form[lang][f][v]
						}
						w[pos] += "q"
						return strings.Join(w, sep)
					}
					gu.base = mk("NFKD", " ")
					for _, f := range spellForms {
						gu.variants = append(gu.variants, spellVariant{s: mk(f, seps[r.Intn(2)]), form: f})
					}
					emit(gu)
					// a separator too many (trailing, leading, doubled, two trailing), the extra
					// one typed as U+0020 in the base and as another space-like code point in
					// the variants
					shape := (sentenceNo / 4) % 4
					dpos := 1 + r.Intn(len(idx)-1)
					defect := func(f, sep, extra string) string {
						w := make([]string, len(idx))
						for i, v := range idx {
							w[i] = t.form[lang][f][v]
						}
						switch shape {
						case 0:
							return strings.Join(w, sep) + extra
						case 1:
							return extra + strings.Join(w, sep)
						case 2:
							return strings.Join(w[:dpos], sep) + sep + extra + strings.Join(w[dpos:], sep)
						}
						return strings.Join(w, sep) + extra + extra
					}
					gs := &spellGroup{lang: lang, kind: "separator-defect-" + []string{"trailing", "leading", "doubled", "two-trailing"}[shape]}
					gs.base = defect("NFKD", " ", " ")
					for _, extra := range []string{"\u3000", "\u00a0", string(g.spaceLike[r.Intn(len(g.spaceLike))])} {
						gs.variants = append(gs.variants, spellVariant{s: defect("NFKD", " ", extra), form: "NFKD"})
						f := spellForms[r.Intn(len(spellForms))]
						gs.variants = append(gs.variants, spellVariant{s: defect(f, seps[r.Intn(2)], extra), form: f})
					}
					gs.variants = append(gs.variants, spellVariant{s: defect("NFKC", "\u3000", " "), form: "NFKC"})
					emit(gs)
				}
			}
		}
	}
	// arbitrary Unicode strings paired with their other normal forms
	if randomPairs > 0 {
		r := rng.New(e.Seed, label+"-random")
		py := e.Py()
		const batch = 500
		for done := 0; done < randomPairs; done += batch {
			ss := make([]string, batch)
			for i := range ss {
				switch i % 3 {
				case 0:
					ss[i] = g.RandString(r, 1+r.Intn(30))
				case 1:
					ss[i] = g.Reordering(r, 2+r.Intn(6)) + " " + g.Compat(r, 1+r.Intn(5))
				default:
					// list words glued with random characters
					l := r.Intn(ref.NLang)
					ss[i] = e.Model.List[l][r.Intn(2048)] + g.RandString(r, 1+r.Intn(3)) + " " + e.Model.List[l][r.Intn(2048)]
				}
			}
			forms := map[string][]string{}
			for _, f := range []string{"NFC", "NFD", "NFKC", "NFKD"} {
				forms[f], _ = py.Normalize(f, ss)
			}
			for i, s := range ss {
				grp := &spellGroup{lang: r.Intn(ref.NLang), kind: "random", base: s}
				for _, f := range []string{"NFC", "NFD", "NFKC", "NFKD"} {
					grp.variants = append(grp.variants, spellVariant{s: forms[f][i], form: f})
				}
				rs, _ := g.Respell(r, forms["NFKD"][i], 1, 2)
				grp.variants = append(grp.variants, spellVariant{s: rs, form: "preimage-random"})
				emit(grp)
			}
		}
	}
}
