package main

import (
	"crypto/sha256"
	"fmt"
	"math"
	"strconv"
	"sync"

	"aaverif/internal/plan"
	"aaverif/internal/ref"
	"aaverif/internal/rng"
)

func init() { register("C16", checkC16) }

// nameOf is the oracle: the declared identifier for 0..9, "Language(N)" otherwise.
func nameOf(v int64) string {
	if v >= 0 && v < ref.NLang {
		return ref.Names[v]
	}
	return "Language(" + strconv.FormatInt(v, 10) + ")"
}

func rangeDigest(lo, hi int64) string {
	h := sha256.New()
	for v := lo; ; v++ {
		h.Write([]byte(nameOf(v)))
		h.Write([]byte{'\n'})
		if v == hi {
			break
		}
	}
	return hx(h.Sum(nil))
}

type c16exp struct {
	single bool
	v      int64
	lo, hi int64
}

func checkC16(e *Env) {
	drv := e.BuildDrv(false)
	var mu sync.Mutex
	values := int64(0)
	supported := map[int64]string{}
	smp := newSamples(12)
	dist := newDistinct()
	var suspects []c16exp

	stats := e.RunStream(StreamOpts{Drv: drv}, func(emit func(*Item)) {
		one := func(v int64) {
			emit(&Item{Op: plan.Op{Fn: "str", L: v}, Exp: c16exp{single: true, v: v}})
		}
		for v := int64(-20); v <= 30; v++ {
			one(v)
		}
		for _, b := range []int64{math.MinInt64, math.MinInt64 + 1, math.MinInt32 - 1, math.MinInt32, math.MinInt32 + 1, -(1 << 31) - 1, -256, -255, -128, -1, 255, 256, 65535, 65536, math.MaxInt32 - 1, math.MaxInt32, math.MaxInt32 + 1, 1 << 32, 1<<32 + 9, 1<<32 + 2, -(1 << 32) + 3, 1 << 62, math.MaxInt64 - 1, math.MaxInt64} {
			one(b)
		}
		for k := int64(0); k < 10; k++ { // values congruent to supported ones modulo 2^8, 2^16, 2^32
			one(k + 256)
			one(k + 65536)
			one(k + 1<<32)
			one(k - 256)
			one(k - (1 << 32))
		}
		r := rng.New(e.Seed, "C16")
		// log-uniform: several values of every bit length, both signs, plus windows
		for b := uint(1); b <= 63; b++ {
			for k := 0; k < e.pick(6, 60); k++ {
				v := int64(1)<<(b-1) | int64(r.Uint64()&(1<<(b-1)-1))
				one(v)
				one(-v)
			}
			v := int64(1) << (b - 1)
			emit(&Item{Op: plan.Op{Fn: "strrange", Lo: v - 40, Hi: v + 40}, Exp: c16exp{lo: v - 40, hi: v + 40}})
			emit(&Item{Op: plan.Op{Fn: "strrange", Lo: -v - 40, Hi: -v + 40}, Exp: c16exp{lo: -v - 40, hi: -v + 40}})
		}
		for k := 0; k < e.pick(2000, 50000); k++ {
			// random int64 values, individually (1000 per batch would need per-value output; use singles sparsely)
			one(int64(r.Uint64()))
		}
		// dense ranges through digests
		span := int64(e.pick(1<<20, 1<<24))
		const chunk = 1 << 14
		for lo := -span; lo <= span; lo += chunk {
			hi := lo + chunk - 1
			if hi > span {
				hi = span
			}
			emit(&Item{Op: plan.Op{Fn: "strrange", Lo: lo, Hi: hi}, Exp: c16exp{lo: lo, hi: hi}})
		}
		// dense windows around every power of ten, both signs (the number of decimal digits
		// changes there; digit counts taken from floating-point logarithms go wrong near them)
		for p10 := int64(10); p10 > 0 && p10 <= 1000000000000000000; p10 *= 10 {
			w := int64(e.pick(6000, 60000))
			for _, centre := range []int64{p10, -p10} {
				for lo := centre - w; lo < centre+w; lo += chunk {
					hi := lo + chunk - 1
					if hi > centre+w {
						hi = centre + w
					}
					emit(&Item{Op: plan.Op{Fn: "strrange", Lo: lo, Hi: hi}, Exp: c16exp{lo: lo, hi: hi}})
				}
			}
			if p10 == 1000000000000000000 {
				break
			}
		}
		// random windows elsewhere in the int64 space
		for k := 0; k < e.pick(200, 5000); k++ {
			lo := int64(r.Uint64())
			if lo > math.MaxInt64-1000 {
				lo = math.MaxInt64 - 1000
			}
			emit(&Item{Op: plan.Op{Fn: "strrange", Lo: lo, Hi: lo + 999}, Exp: c16exp{lo: lo, hi: lo + 999}})
		}
	}, func(it *Item, r *plan.Res) {
		x := it.Exp.(c16exp)
		if f := failure(r); f != "" && x.single {
			e.Violate(&Violation{What: fmt.Sprintf("Language(%d).String() did not return: %s", x.v, oneLine(f, 300)), Ops: []plan.Op{it.Op}, Expected: map[string]string{"out_hex": hxs(nameOf(x.v))}, Observed: r})
			return
		} else if f != "" {
			mu.Lock()
			suspects = append(suspects, x)
			mu.Unlock()
			return
		}
		if x.single {
			got := string(unhex(r.Out))
			mu.Lock()
			values++
			if x.v >= 0 && x.v < ref.NLang {
				supported[x.v] = got
			}
			mu.Unlock()
			if got != nameOf(x.v) {
				e.Violate(&Violation{What: fmt.Sprintf("Language(%d).String() = %q, expected %q", x.v, got, nameOf(x.v)), Ops: []plan.Op{it.Op}, Expected: map[string]string{"out_hex": hxs(nameOf(x.v)), "out": nameOf(x.v)}, Observed: r})
				return
			}
			dist.Add(strconv.FormatInt(x.v, 10))
			smp.Add(map[string]any{"value": x.v, "string": got})
			return
		}
		mu.Lock()
		values += x.hi - x.lo + 1
		mu.Unlock()
		if r.Dig != rangeDigest(x.lo, x.hi) {
			mu.Lock()
			suspects = append(suspects, x)
			mu.Unlock()
			return
		}
		dist.Add("range", strconv.FormatInt(x.lo, 10))
	})

	// bisect ranges whose digest differs (or which crashed) down to single values
	rangesBisected := 0
	for _, s := range suspects {
		if e.Violations() >= maxViolations {
			break
		}
		rangesBisected++
		lo, hi := s.lo, s.hi
		for lo < hi {
			mid := lo + (hi-lo)/2
			res, died := e.RunProc(drv, []plan.Op{{Fn: "strrange", Lo: lo, Hi: mid}}, nil, 0)
			if died != "" || len(res) != 1 || res[0].Panic != "" || res[0].Dig != rangeDigest(lo, mid) {
				hi = mid
			} else {
				lo = mid + 1
			}
		}
		op := plan.Op{Fn: "str", L: lo}
		res, died := e.RunProc(drv, []plan.Op{op}, nil, 0)
		got := "<no result>"
		var obs any = died
		if len(res) == 1 {
			obs = res[0]
			if res[0].Panic != "" {
				got = "panic: " + oneLine(res[0].Panic, 200)
			} else {
				got = strconv.Quote(string(unhex(res[0].Out)))
			}
		}
		e.Violate(&Violation{What: fmt.Sprintf("Language(%d).String() = %s, expected %q (found by bisecting range [%d, %d])", lo, got, nameOf(lo), s.lo, s.hi), Ops: []plan.Op{op}, Expected: map[string]string{"out_hex": hxs(nameOf(lo)), "out": nameOf(lo)}, Observed: obs})
	}

	// long uninterrupted histories of random values: a memo of formatted names keyed by a
	// truncated hash answers wrongly once in ~2^26 calls, so each child formats millions
	randDigest := func(seed, n int64) (dig string, lastVal int64) {
		g := rng.New(uint64(seed), "strrand")
		h := sha256.New()
		for k := int64(0); k < n; k++ {
			lastVal = int64(g.Uint64())
			h.Write([]byte(nameOf(lastVal)))
			h.Write([]byte{'\n'})
		}
		return hx(h.Sum(nil)), lastVal
	}
	histories := e.Workers
	perHistory := int64(e.pick(1<<23, 1<<26))
	var histCalls int64
	parallel(histories, e.Workers, func(hi int) {
		seed := int64(e.Seed)*1000 + int64(hi)
		op := plan.Op{Fn: "strrand", Lo: seed, N: perHistory}
		res, died := e.RunProc(drv, []plan.Op{op}, nil, 0)
		want, _ := randDigest(seed, perHistory)
		mu.Lock()
		histCalls += perHistory
		mu.Unlock()
		if died == "" && len(res) == 1 && res[0].Panic == "" && res[0].Dig == want {
			return
		}
		// find the shortest failing prefix: the history up to the first wrong name
		lo, hi2 := int64(1), perHistory
		for lo < hi2 {
			mid := lo + (hi2-lo)/2
			r2, d2 := e.RunProc(drv, []plan.Op{{Fn: "strrand", Lo: seed, N: mid}}, nil, 0)
			w2, _ := randDigest(seed, mid)
			if d2 != "" || len(r2) != 1 || r2[0].Panic != "" || r2[0].Dig != w2 {
				hi2 = mid
			} else {
				lo = mid + 1
			}
		}
		fop := plan.Op{Fn: "strrand", Lo: seed, N: lo}
		r3, d3 := e.RunProc(drv, []plan.Op{fop}, nil, 0)
		_, val := randDigest(seed, lo)
		got := "<no result: " + oneLine(d3, 100) + ">"
		if len(r3) == 1 {
			got = strconv.Quote(string(unhex(r3[0].Out)))
			if r3[0].Panic != "" {
				got = "panic: " + oneLine(r3[0].Panic, 200)
			}
		}
		e.Violate(&Violation{What: fmt.Sprintf("Language(%d).String() = %s, expected %q, as call number %d of a history of String() calls on pseudo-random values (PRNG seed %d): the result depends on earlier calls", val, got, nameOf(val), lo, seed),
			Ops: []plan.Op{fop}, Expected: map[string]string{"out_hex": hxs(nameOf(val)), "out": nameOf(val)}, Observed: r3})
	})
	values += histCalls

	// the concurrent flavour of this monitor (C12 is the full treatment)
	concCalls := e.concurrentSmoke(drv, "C16", e.smokePool("C16", "str"), e.pick(24, 120), e.pick(1000, 4000), e.smokeStr())

	// histories: the name of a value before and after the same value was used as the language
	// argument of every other function (and after other values were)
	histVals := 0
	parallel(8, e.Workers, func(h int) {
		r := rng.New(e.Seed, "C16-hist-"+itoa(h))
		var ops []plan.Op
		add := func(op plan.Op) { op.I = len(ops); ops = append(ops, op) }
		var strIdx []int
		for k := 0; k < 60; k++ {
			v := int64(k%14) - 2 // -2..11 repeatedly
			switch k % 5 {
			case 1:
				v = 10 + int64(r.Intn(1000))
			case 2:
				v = -int64(r.Intn(1 << 20))
			case 3:
				v = int64(r.Uint64())
			}
			strIdx = append(strIdx, len(ops))
			add(plan.Op{Fn: "str", L: v})
			add(plan.Op{Fn: "enc", L: v, E: hx(r.Bytes(16))})
			add(plan.Op{Fn: "new", L: v, N: 12, Src: &plan.Src{Data: hx(r.Bytes(16))}})
			add(plan.Op{Fn: "new", L: v, N: 15})
			add(plan.Op{Fn: "chkval", L: v, S: hxs("legal winner thank year wave sausage worth useful legal winner thank yellow")})
			strIdx = append(strIdx, len(ops))
			add(plan.Op{Fn: "str", L: v})
		}
		res, died := e.RunProc(drv, ops, nil, 0)
		if died != "" {
			e.Violate(&Violation{What: "the process died in a history of calls around Language.String(): " + oneLine(died, 300), Ops: ops[:min(len(res)+1, len(ops))]})
			return
		}
		for _, i := range strIdx {
			v := ops[i].L
			if got := string(unhex(res[i].Out)); res[i].Panic != "" || got != nameOf(v) {
				e.Violate(&Violation{What: fmt.Sprintf("Language(%d).String() = %q (panic: %v), expected %q, after the value had been used as the language of other calls in the same process", v, got, res[i].Panic != "", nameOf(v)),
					Ops: ops[:i+1], Expected: map[string]string{"out_hex": hxs(nameOf(v))}, Observed: res[i], Detail: "the failing call is the last of ops"})
				return
			}
		}
		mu.Lock()
		histVals += len(strIdx)
		mu.Unlock()
	})
	values += int64(histVals)

	names := map[string]bool{}
	for _, n := range supported {
		names[n] = true
	}
	if e.Violations() == 0 && (len(supported) != ref.NLang || len(names) != ref.NLang) {
		fatalInconclusive("C16: supported names observed: %v", supported)
	}
	e.WriteEvidence("exploration", map[string]any{
		"evaluations":                      values,
		"distinct_nontrivial":              dist.Len(),
		"calls_repeated_under_concurrency": concCalls,
		"rule":                             "cases are int values of Language: the ten supported values (complete), every value in [-2^20, 2^20] (thorough [-2^24, 2^24]) through SHA-256 digests of 16384-value chunks computed in the child and compared with the digest of the expected names (a differing chunk is bisected to a single value), boundary values of every integer width, values congruent to supported ones modulo 2^8/2^16/2^32, dense windows around every power of ten (both signs), seeded random int64 values and windows, log-uniform values of every bit length, and 16 uninterrupted histories of 2^23 (thorough 2^26) pseudo-random values each, formatted in one child and compared through a digest (a wrong name anywhere is located by bisecting the history length); non-trivial = every value (the expected string is fully determined); distinct = single values and chunks whose output was confirmed",
		"samples":                          smp.List(),
		"supported_names_observed":         supported,
		"supported_subset_exhaustive":      true,
		"values_checked":                   values,
		"operations":                       stats.Ops,
		"ranges_bisected":                  rangesBisected,
		"children":                         stats.Children,
	}, []string{"the declared identifiers of the ten Language constants (ChineseSimplified ... Portuguese) are the expected names"})
}
