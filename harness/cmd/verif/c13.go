package main

import (
	"bytes"
	"crypto/sha256"
	"encoding/json"
	"fmt"
	"strings"
	"sync"

	"aaverif/internal/plan"
	"aaverif/internal/ref"
	"aaverif/internal/rng"
)

func init() { register("C13", checkC13) }

// refExpect is what the history-free reference model says about a call.
type refExpect struct {
	defined  bool
	out      *string // expected returned string / seed bytes (nil: not fixed)
	errClass string  // nil | wordlen | entlen | checksum | other | any-error | ""(not fixed)
	valid    *bool   // IsMnemonicValid result
	newValid int     // >0: result must be a valid sentence of that many words (default source)
}

func errClassOf(ei *plan.ErrInfo) string {
	switch {
	case ei == nil:
		return "nil"
	case ei.WordLen:
		return "wordlen"
	case ei.EntLen:
		return "entlen"
	case ei.Checksum:
		return "checksum"
	}
	return "other"
}

// refEval evaluates one op with the reference model only. Calls outside the
// model's domain (unsupported languages) are left undefined; they are still
// compared with their solo execution.
func (e *Env) refEval(op *plan.Op) refExpect {
	sp := func(s string) *string { return &s }
	bp := func(b bool) *bool { return &b }
	supported := op.L >= 0 && op.L < ref.NLang
	switch op.Fn {
	case "str":
		return refExpect{defined: true, out: sp(nameOf(op.L)), errClass: "nil"}
	case "seed":
		s, ok := e.RefSeed(op.Str(), op.Pass())
		if !ok {
			return refExpect{}
		}
		return refExpect{defined: true, out: sp(string(s)), errClass: "nil"}
	case "enc":
		ent := op.Entropy()
		if !validEntLen(len(ent)) {
			return refExpect{defined: true, out: sp(""), errClass: "entlen"}
		}
		if !supported {
			return refExpect{defined: true, errClass: "nil"}
		}
		return refExpect{defined: true, out: sp(e.Model.Enc(ent, int(op.L))), errClass: "nil"}
	case "chk", "val", "chkval":
		if !supported {
			return refExpect{} // outside the model: compared with the solo execution only
		}
		// sequence strings are list words / ASCII tokens joined by single spaces
		// (or U+3000): the reference tokenisation coincides with the property's
		s := strings.ReplaceAll(op.Str(), "\u3000", " ")
		toks := strings.Split(s, " ")
		_, st, _ := e.Model.Dec(toks, int(op.L))
		cls := map[ref.Status]string{ref.OK: "nil", ref.BadCount: "wordlen", ref.BadChecksum: "checksum", ref.UnknownWord: "other"}[st]
		return refExpect{defined: true, errClass: cls, valid: bp(st == ref.OK)}
	case "new":
		if !validCount64(op.N) {
			return refExpect{defined: true, out: sp(""), errClass: "wordlen"}
		}
		need := int(op.N) + int(op.N)/3
		if op.Src == nil {
			if !supported {
				return refExpect{defined: true, errClass: "nil"}
			}
			return refExpect{defined: true, errClass: "nil", newValid: int(op.N)}
		}
		data := unhex(op.Src.Data)
		switch classify(data, op.Src.Steps, need) {
		case "must-succeed":
			if !supported {
				return refExpect{defined: true, errClass: "nil"}
			}
			return refExpect{defined: true, out: sp(e.Model.Enc(data[:need], int(op.L))), errClass: "nil"}
		case "must-fail":
			return refExpect{defined: true, out: sp(""), errClass: "any-error"}
		}
	}
	return refExpect{}
}

// judgeAgainstRef compares an observed result with the reference expectation.
func (e *Env) judgeAgainstRef(op *plan.Op, r *plan.Res, x refExpect) string {
	if !x.defined {
		return ""
	}
	cls := errClassOf(r.Err)
	if op.Fn == "val" {
		cls = ""
	}
	switch {
	case x.errClass == "" || cls == "":
	case x.errClass == "any-error":
		if cls == "nil" {
			return "expected an error, got nil"
		}
	case x.errClass != cls:
		return fmt.Sprintf("expected error class %s, got %s (%s)", x.errClass, cls, errText(r.Err))
	}
	if x.out != nil && string(unhex(r.Out)) != *x.out {
		return fmt.Sprintf("expected result %s, got %s", preview(*x.out), preview(string(unhex(r.Out))))
	}
	if x.valid != nil && r.B != nil && *r.B != *x.valid {
		return fmt.Sprintf("expected IsMnemonicValid=%v, got %v", *x.valid, *r.B)
	}
	if x.newValid > 0 {
		toks := strings.Fields(string(unhex(r.Out)))
		if _, st, _ := e.Model.Dec(toks, int(op.L)); st != ref.OK || len(toks) != x.newValid {
			return fmt.Sprintf("expected a valid %d-word mnemonic, got %s", x.newValid, preview(string(unhex(r.Out))))
		}
	}
	return ""
}

// sameObservation compares the observable parts of two results of the same call.
func sameObservation(a, b *plan.Res) string {
	switch {
	case (a.Panic == "") != (b.Panic == ""):
		return "one execution panicked, the other did not"
	case a.Out != b.Out:
		return fmt.Sprintf("results differ: %s vs %s", preview(string(unhex(a.Out))), preview(string(unhex(b.Out))))
	case (a.Err == nil) != (b.Err == nil):
		return fmt.Sprintf("errors differ: %s vs %s", errText(a.Err), errText(b.Err))
	case a.Err != nil && (a.Err.Msg != b.Err.Msg || errClassOf(a.Err) != errClassOf(b.Err)):
		return fmt.Sprintf("errors differ: %s vs %s", errText(a.Err), errText(b.Err))
	case (a.B == nil) != (b.B == nil) || (a.B != nil && *a.B != *b.B):
		return "boolean results differ"
	}
	return ""
}

type seqGen struct {
	e    *Env
	r    *rng.R
	ops  []plan.Op
	bufs map[int][]byte // caller-owned entropy buffers by id (original content)
}

func (g *seqGen) add(op plan.Op) {
	op.I = len(g.ops)
	g.ops = append(g.ops, op)
}

func (g *seqGen) validSentence(lang int) string {
	return g.e.Model.Enc(g.r.Bytes(ref.EntSizes[g.r.Intn(5)]), lang)
}

// randomOp appends one random call over all six functions.
func (g *seqGen) randomOp(recent *[]plan.Op) {
	r, m := g.r, g.e.Model
	lang := int64(r.Intn(ref.NLang))
	if r.Intn(12) == 0 {
		lang = []int64{-1, 10, 11, 100, -1 << 40}[r.Intn(5)]
	}
	sl := int(lang)
	if lang < 0 || lang >= ref.NLang {
		sl = 2
	}
	if len(*recent) > 0 && r.Intn(6) == 0 {
		// the same input again, far apart
		op := (*recent)[r.Intn(len(*recent))]
		g.add(op)
		return
	}
	var op plan.Op
	switch k := r.Intn(100); {
	case k < 22: // NewMnemonicByEntropy, often on a reused caller-owned buffer
		size := ref.EntSizes[r.Intn(5)]
		if r.Intn(8) == 0 {
			size = []int{0, 1, 15, 17, 31, 33, 36, 64}[r.Intn(8)]
		}
		op = plan.Op{Fn: "enc", L: lang, Keep: true}
		if r.Intn(2) == 0 && len(g.bufs) > 0 && r.Intn(3) > 0 {
			id := 1 + r.Intn(len(g.bufs))
			op.Buf, op.E = id, hx(g.bufs[id])
		} else if r.Intn(2) == 0 {
			id := len(g.bufs) + 1
			g.bufs[id] = r.Bytes(size)
			op.Buf, op.E = id, hx(g.bufs[id])
		} else {
			op.E = hx(r.Bytes(size))
			switch r.Intn(3) {
			case 0:
				op.Cap = 1 + r.Intn(24) // spare capacity behind the slice, watched for writes
			case 1:
				op.Arena = true // the caller recycles its buffer: new content, same backing array
			}
		}
	case k < 50: // CheckMnemonic / IsMnemonicValid on valid and defective sentences
		s := g.validSentence(sl)
		w := strings.Split(s, ref.Sep(sl))
		switch r.Intn(6) {
		case 0:
			w[r.Intn(len(w))] = m.List[sl][r.Intn(2048)] // most likely a checksum failure
		case 1:
			w[r.Intn(len(w))] = "qzx" + itoa(r.Intn(999))
		case 2:
			w = w[:len(w)-1-r.Intn(3)]
		}
		sep := " "
		if sl == ref.Japanese && r.Intn(2) == 0 {
			sep = "\u3000"
		}
		op = plan.Op{Fn: []string{"chk", "val", "chkval"}[r.Intn(3)], L: lang, S: hxs(strings.Join(w, sep))}
	case k < 58: // MnemonicToSeed
		op = plan.Op{Fn: "seed", S: hxs(g.validSentence(sl)), P: hxs([]string{"", "TREZOR", "pa\u00df\uff57ord"}[r.Intn(3)]), Keep: true}
	case k < 68:
		op = plan.Op{Fn: "str", L: lang}
	case k < 90: // NewMnemonic on scripted sources, working and failing
		n := int64(ref.WordCounts[r.Intn(5)])
		if r.Intn(6) == 0 {
			n = []int64{0, 11, 13, 27, -12, 1 << 40}[r.Intn(6)]
		}
		src := &plan.Src{Data: hx(r.Bytes(40))}
		switch r.Intn(4) {
		case 0:
			src.Steps = []plan.Step{{N: 5}, {N: 0, E: []string{"eof", "ueof", "custom"}[r.Intn(3)]}}
		case 1:
			src.Data = hx(r.Bytes(r.Intn(16)))
		case 2:
			src.Steps = []plan.Step{{N: 1}, {N: 0}, {N: 7}}
		}
		op = plan.Op{Fn: "new", L: lang, N: n, Src: src, Keep: true}
	default: // NewMnemonic on the default source
		op = plan.Op{Fn: "new", L: lang, N: int64([]int{12, 15, 18, 21, 24, 13, 0}[r.Intn(7)]), Keep: true}
	}
	g.add(op)
	if r.Intn(5) == 0 && !(op.Fn == "new" && op.Src == nil) {
		// immediate repetition, then (later ops) something different: A, A, B
		for k := 0; k <= r.Intn(2); k++ {
			g.add(op)
		}
	}
	if len(*recent) < 40 {
		*recent = append(*recent, op)
	} else {
		(*recent)[r.Intn(40)] = op
	}
}

// memoHunt appends call patterns that expose memo/cache style state: the same
// string asked under another language right after it was accepted, the same words
// in another spelling, a near miss right after a hit, the same entropy under
// another language, the same seed arguments and almost the same ones.
func (g *seqGen) memoHunt(rounds int) {
	r, m := g.r, g.e.Model
	for k := 0; k < rounds; k++ {
		l := r.Intn(ref.NLang)
		if r.Intn(5) == 0 {
			l = ref.Japanese // the one language whose sentences are not in NFKD form as generated
		}
		l2 := (l + 1 + r.Intn(ref.NLang-1)) % ref.NLang
		if l <= 1 && r.Intn(2) == 0 {
			l2 = 1 - l // the two Chinese lists share 1275 words
		}
		ent := r.Bytes(ref.EntSizes[r.Intn(5)])
		w := m.Words(ent, l)
		s := strings.Join(w, " ")
		wide := strings.Join(w, "\u3000")
		own := m.Enc(ent, l) // what the generators return for this entropy
		bad := append([]string(nil), w...)
		bad[len(bad)-1] = m.List[l][m.Index[l][bad[len(bad)-1]]^1]
		bad2 := append([]string(nil), w...)
		bad2[0], bad2[1] = bad2[1], bad2[0]
		for _, op := range []plan.Op{
			{Fn: "chk", L: int64(l), S: hxs(s)},
			{Fn: "chk", L: int64(l2), S: hxs(s)},
			{Fn: "val", L: int64(l2), S: hxs(s)},
			{Fn: "val", L: int64(l), S: hxs(s)},
			{Fn: "chk", L: int64(l), S: hxs(strings.Join(bad, " "))},
			{Fn: "val", L: int64(l), S: hxs(strings.Join(bad, "\u3000"))},
			{Fn: "chk", L: int64(l), S: hxs(wide)},
			{Fn: "chk", L: int64(l2), S: hxs(wide)},
			{Fn: "chk", L: int64(l), S: hxs(strings.Join(bad2, " "))},
			{Fn: "chk", L: int64(l), S: hxs(s + " " + w[0])},
			{Fn: "chk", L: int64(l), S: hxs(s)},
			{Fn: "enc", L: int64(l), E: hx(ent), Keep: true, Cap: 8},
			{Fn: "enc", L: int64(l2), E: hx(ent), Keep: true},
			{Fn: "enc", L: int64(l), E: hx(append(append([]byte(nil), ent[:len(ent)-1]...), ent[len(ent)-1]^1)), Keep: true},
			// a caller recycling one buffer: three contents in the same backing array
			{Fn: "enc", L: int64(l), E: hx(ent), Arena: true, Keep: true},
			{Fn: "enc", L: int64(l), E: hx(append([]byte{ent[0] ^ 0x80}, ent[1:]...)), Arena: true, Keep: true},
			{Fn: "enc", L: int64(l2), E: hx(ent), Arena: true, Keep: true},
			// a sentence is generated and then handed, exactly as generated, to the other
			// functions (by either generator; then once more after another generation)
			{Fn: "enc", L: int64(l), E: hx(ent), Keep: true},
			{Fn: "seed", S: hxs(own), P: hxs("p"), Keep: true},
			{Fn: "chk", L: int64(l), S: hxs(own)},
			{Fn: "new", L: int64(l), N: int64(len(w)), Src: &plan.Src{Data: hx(ent)}, Keep: true},
			{Fn: "seed", S: hxs(own), P: hxs("\uff50\u00e9"), Keep: true},
			{Fn: "val", L: int64(l), S: hxs(own)},
			{Fn: "enc", L: int64(l2), E: hx(ent), Keep: true},
			{Fn: "seed", S: hxs(own), P: hxs("p"), Keep: true},
			// rejected sentences in spellings that need normalising (each error path), then
			// seeds where both components need normalising, next to their NFKD spellings
			{Fn: "chk", L: int64(l), S: hxs(wide + "\u3000" + w[0])},
			{Fn: "val", L: int64(l), S: hxs(strings.Join(w[:len(w)-1], "\u3000"))},
			{Fn: "chk", L: int64(l), S: hxs(strings.Join(w[:len(w)-1], "\u3000") + "\u3000\uff51\uff5a\uff58")},
			{Fn: "seed", S: hxs(wide), P: hxs("\uff50\u00e9"), Keep: true},
			{Fn: "seed", S: hxs(s), P: hxs("pe\u0301"), Keep: true},
			{Fn: "seed", S: hxs(wide), P: hxs("\uff50\u00e9"), Keep: true},
			{Fn: "seed", S: hxs(s), P: hxs("p"), Keep: true},
			{Fn: "seed", S: hxs(s), P: hxs("p"), Keep: true},
			{Fn: "seed", S: hxs(s), P: hxs("q"), Keep: true},
			{Fn: "seed", S: hxs(wide), P: hxs("p"), Keep: true},
			{Fn: "seed", S: hxs(strings.Join(bad, " ")), P: hxs("p"), Keep: true},
			// the same concatenation split at another place: (a+b, c) and (a, b+c)
			{Fn: "seed", S: hxs(s), P: hxs(" tail"), Keep: true},
			{Fn: "seed", S: hxs(s + " "), P: hxs("tail"), Keep: true},
			{Fn: "seed", S: hxs(s + " tail"), P: hxs(""), Keep: true},
			{Fn: "seed", S: hxs(""), P: hxs(s + " tail"), Keep: true},
			{Fn: "seed", S: hxs(s[:len(s)/2]), P: hxs(s[len(s)/2:]), Keep: true},
			{Fn: "seed", S: hxs(s), P: hxs(""), Keep: true},
			{Fn: "seed", S: hxs("mnemonic"), P: hxs(s), Keep: true},
			{Fn: "seed", S: hxs(""), P: hxs("mnemonic" + s), Keep: true},
			// an unsupported value that equals the language after truncation to 8, 16 or 32 bits
			// (a memo keyed by a narrowed language), before and after the language itself
			{Fn: "chk", L: int64(l) + []int64{1 << 8, 1 << 16, 1 << 32, -(1 << 8)}[k%4], S: hxs(s)},
			{Fn: "chk", L: int64(l), S: hxs(s)},
			{Fn: "val", L: int64(l) + []int64{1 << 16, 1 << 32, -(1 << 8), 1 << 8}[k%4], S: hxs(s)},
			{Fn: "enc", L: int64(l) + []int64{1 << 32, -(1 << 8), 1 << 8, 1 << 16}[k%4], E: hx(ent), Keep: true},
			{Fn: "enc", L: int64(l), E: hx(ent), Keep: true},
			{Fn: "chk", L: int64(l), S: hxs(strings.Join(bad, " "))},
			{Fn: "chk", L: int64(l) + []int64{1 << 8, 1 << 16, 1 << 32, -(1 << 8)}[k%4], S: hxs(strings.Join(bad, " "))},
			{Fn: "chk", L: int64(l), S: hxs(strings.Join(bad, " "))},
			// the same unsupported Language value in a generating call and then in a check
			{Fn: "chk", L: int64(70 + k), S: hxs("legal winner thank year wave sausage worth useful legal winner thank yellow")},
			{Fn: "enc", L: int64(70 + k), E: hx(ent), Keep: true},
			{Fn: "new", L: int64(70 + k), N: 12, Src: &plan.Src{Data: hx(ent)}},
			{Fn: "chk", L: int64(70 + k), S: hxs("legal winner thank year wave sausage worth useful legal winner thank yellow")},
			{Fn: "val", L: int64(-3 - k), S: hxs("legal winner thank year wave sausage worth useful legal winner thank yellow")},
			{Fn: "enc", L: int64(-3 - k), E: hx(ent)},
			{Fn: "val", L: int64(-3 - k), S: hxs("legal winner thank year wave sausage worth useful legal winner thank yellow")},
			{Fn: "str", L: int64(70 + k)},
			{Fn: "str", L: int64(-3 - k)},
			{Fn: "str", L: int64(1000 + k)},
			{Fn: "str", L: int64(1000 + k + 64)},
			{Fn: "str", L: int64(l)},
			// a randomness source that fails after delivering some bytes, then successes
			{Fn: "new", L: int64(l), N: int64(len(w)), Src: &plan.Src{Data: hx(ent), Steps: []plan.Step{{N: 1 + k%7}, {N: 0, E: "custom"}}}},
			{Fn: "enc", L: int64(l), E: hx(ent), Keep: true},
			{Fn: "chk", L: int64(l), S: hxs(s)},
			{Fn: "new", L: int64(l2), N: 24, Src: &plan.Src{Data: hx(ent[:5])}},
			{Fn: "new", L: int64(l), N: int64(len(w)), Src: &plan.Src{Data: hx(ent)}, Keep: true},
			{Fn: "new", L: int64(l2), N: int64(len(w)), Src: &plan.Src{Data: hx(ent)}, Keep: true},
		} {
			g.add(op)
		}
		g.failThenSucceed(l, l2, ent, w, own, wide, k)
	}
}

// failThenSucceed appends (failing call, succeeding call) pairs: every way a call can fail
// directly followed by every kind of call that succeeds. State that an error path forgets
// to clean (pooled buffers, accumulators, digests) is picked up by the very next call.
// Each round takes a seeded half of the matrix.
func (g *seqGen) failThenSucceed(l, l2 int, ent []byte, w []string, own, wide string, k int) {
	r, m := g.r, g.e.Model
	s := strings.Join(w, " ")
	unk := func(pos int, sep string) string {
		c := append([]string(nil), w...)
		c[pos] = "qzv" + itoa(k)
		return strings.Join(c, sep)
	}
	bad := append([]string(nil), w...)
	bad[len(bad)-1] = m.List[l][m.Index[l][bad[len(bad)-1]]^1]
	need := len(ent)
	failing := []plan.Op{
		{Fn: "chk", L: int64(l), S: hxs(s + " " + w[0])},
		{Fn: "chk", L: int64(l), S: hxs(wide + "\u3000" + w[0])},
		{Fn: "val", L: int64(l), S: hxs(strings.Join(w[1:], " "))},
		{Fn: "chk", L: int64(l), S: hxs(unk(0, " "))},
		{Fn: "chk", L: int64(l), S: hxs(unk(len(w)/2, " "))},
		{Fn: "chk", L: int64(l), S: hxs(unk(len(w)-1, "\u3000"))},
		{Fn: "chk", L: int64(l), S: hxs(strings.Join(bad, " "))},
		{Fn: "val", L: int64(l), S: hxs(strings.Join(bad, "\u3000"))},
		{Fn: "chk", L: int64(l2), S: hxs(s)},
		{Fn: "enc", L: int64(l), E: hx(ent[:need-1])},
		{Fn: "enc", L: int64(l), E: hx(append(append([]byte(nil), ent...), 7))},
		{Fn: "enc", L: int64(l), ENil: true},
		{Fn: "new", L: int64(l), N: int64(len(w) + 1), Src: &plan.Src{Data: hx(ent)}},
		{Fn: "new", L: int64(l), N: int64(len(w)), Src: &plan.Src{Data: ""}},
		{Fn: "new", L: int64(l), N: int64(len(w)), Src: &plan.Src{Data: hx(ent), Steps: []plan.Step{{N: 1 + k%(need-1)}, {N: 0, E: "custom"}}}},
		{Fn: "new", L: int64(l), N: int64(len(w)), Src: &plan.Src{Data: hx(ent[:need-1])}},
		{Fn: "enc", L: int64(40 + k), E: hx(ent)},
		{Fn: "chk", L: int64(-9 - k), S: hxs(s)},
	}
	succeeding := []plan.Op{
		{Fn: "chk", L: int64(l), S: hxs(s)},
		{Fn: "val", L: int64(l), S: hxs(wide)},
		{Fn: "enc", L: int64(l), E: hx(ent), Keep: true},
		{Fn: "new", L: int64(l), N: int64(len(w)), Src: &plan.Src{Data: hx(ent)}, Keep: true},
		{Fn: "seed", S: hxs(own), P: hxs("p"), Keep: true},
		{Fn: "seed", S: hxs(wide), P: hxs("\uff50\u00e9"), Keep: true},
		{Fn: "str", L: int64(l)},
		{Fn: "chk", L: int64(l2), S: hxs(m.Enc(ent, l2))},
	}
	for _, f := range failing {
		for _, ok := range succeeding {
			if r.Intn(2) == 0 {
				g.add(f)
				g.add(ok)
			}
		}
	}
}

// cacheWrap appends n distinct calls of one family, then the same calls again in the same order
// and once more in reverse order: a bounded cache, ring or memo inside the library that wraps
// or evicts wrongly answers a repeated call from another call's entry. Families: 0 validations
// of spellings that need normalising (valid and wrong-checksum alternating), 1 validations of
// NFKD sentences under alternating languages, 2 encodings, 3 seeds of spellings that need
// normalising, 4 names of unsupported values.
func (g *seqGen) cacheWrap(family, n int) {
	r, m := g.r, g.e.Model
	first := len(g.ops)
	for k := 0; k < n; k++ {
		l := r.Intn(ref.NLang)
		ent := r.Bytes(ref.EntSizes[r.Intn(5)])
		w := m.Words(ent, l)
		switch family {
		case 0:
			if r.Intn(2) == 1 { // (not alternating: a ring of even size would hand back an entry of the same kind)
				w[len(w)-1] = m.List[l][m.Index[l][w[len(w)-1]]^1]
			}
			sep := []string{"\u3000", "\u00a0", "\u2003"}[k%3]
			g.add(plan.Op{Fn: []string{"chk", "val"}[k%2], L: int64(l), S: hxs(strings.Join(w, sep))})
		case 1:
			g.add(plan.Op{Fn: "chk", L: int64((l + k%2) % ref.NLang), S: hxs(strings.Join(w, " "))})
		case 2:
			g.add(plan.Op{Fn: "enc", L: int64(l), E: hx(ent), Keep: k%4 == 0})
		case 3:
			g.add(plan.Op{Fn: "seed", S: hxs(strings.Join(w, "\u3000")), P: hxs("\uff50" + itoa(k)), Keep: k%4 == 0})
		case 4:
			g.add(plan.Op{Fn: "str", L: int64(10 + r.Intn(1<<40))})
		}
	}
	again := append([]plan.Op(nil), g.ops[first:]...)
	for _, op := range again {
		g.add(op)
	}
	for i := len(again) - 1; i >= 0; i-- {
		g.add(again[i])
	}
}

// soloKey identifies a call independently of its position.
func soloKey(op plan.Op) string {
	op.I, op.Keep, op.Buf, op.Cap, op.Arena = 0, false, 0, 0, false
	b, _ := json.Marshal(&op)
	return string(b)
}

func checkC13(e *Env) {
	drv := e.BuildDrv(false)
	var mu sync.Mutex
	obs := newCounter()
	pairs := newDistinct()
	dist := newDistinct()
	smp := newSamples(6)
	totalOps := 0

	solo := func(op plan.Op) *plan.Res {
		obs.Inc("solo_lookups")
		return e.Solo(drv, op)
	}

	runSequence := func(tag string, g *seqGen, soloEvery int) {
		g.add(plan.Op{Fn: "keepdump"})
		res, died := e.RunProc(drv, g.ops, nil, 0)
		mu.Lock()
		totalOps += len(res)
		mu.Unlock()
		obs.Inc("processes")
		if died != "" {
			culprit := g.ops[min(len(res), len(g.ops)-1)]
			e.Violate(&Violation{What: fmt.Sprintf("sequence %s: the process ended during call %d (%s): %s", tag, culprit.I, fnName(culprit.Fn), oneLine(died, 300)), Ops: g.ops[:culprit.I+1]})
			return
		}
		digests := map[int]string{}
		for i := range res[:len(res)-1] {
			op, r := &g.ops[i], &res[i]
			if op.Fn == "pause" {
				continue
			}
			if r.Panic != "" {
				// panics are C14's, but a panic that depends on history is a C13 matter: compare with solo below
				obs.Inc("panics_seen")
			}
			// 1. history-free reference
			x := e.refEval(op)
			if x.defined {
				obs.Inc("compared_with_reference")
			}
			// (the reference is a filter; only a difference from the solo execution is a violation:
			// a call that is wrong in the same way when run alone does not depend on history)
			if why := e.confirmedDeviation(drv, op, r, x); why != "" && r.Panic == "" {
				e.Violate(&Violation{What: fmt.Sprintf("sequence %s, call %d %s(lang %d): result depends on something other than the arguments — %s", tag, i, fnName(op.Fn), op.L, why),
					Ops: g.ops[:i+1], Expected: e.Solo(drv, *op), Observed: r, Detail: "the failing call is the last of ops; the preceding ones are its history; run it alone to see the expected result"})
				return
			} else if x.defined && e.judgeAgainstRef(op, r, x) != "" {
				obs.Inc("deviations_from_the_reference_that_are_the_same_when_run_alone(not_this_property)")
			}
			// 2. the same call alone, as the first call of a fresh process
			det := !(op.Fn == "new" && op.Src == nil && validCount64(op.N))
			if det && (soloEvery <= 1 || (i+len(tag))%soloEvery == 0) {
				s := solo(*op)
				obs.Inc("compared_with_solo_execution")
				if s.Died != "" {
					e.Violate(&Violation{What: fmt.Sprintf("call %s alone in a fresh process killed it: %s", fnName(op.Fn), oneLine(s.Died, 200)), Ops: []plan.Op{*op}})
					return
				}
				if why := sameObservation(r, s); why != "" {
					e.Violate(&Violation{What: fmt.Sprintf("sequence %s, call %d %s(lang %d) differs from the same call executed alone in a fresh process: %s", tag, i, fnName(op.Fn), op.L, why),
						Ops: g.ops[:i+1], Expected: s, Observed: r, Detail: "the failing call is the last of ops; run it alone to see the expected result"})
					return
				}
			}
			// 3. the caller-owned entropy buffer after the call
			if op.Fn == "enc" {
				want := bufAfterHex(op.Entropy(), op.ENil)
				if op.Cap > 0 && op.Buf == 0 {
					want = bufAfterHex(append(op.Entropy(), bytes.Repeat([]byte{0xA5}, op.Cap)...), false)
				}
				obs.Inc("entropy_buffers_reinspected")
				if r.IA != want {
					e.Violate(&Violation{What: fmt.Sprintf("sequence %s, call %d: NewMnemonicByEntropy modified the caller's entropy buffer (the slice passed in, followed by its spare capacity where one was given): before %s, afterwards %s", tag, i, want, r.IA),
						Ops: g.ops[:i+1], Expected: want, Observed: r})
					return
				}
			}
			if op.Keep && r.Panic == "" {
				h := sha256.Sum256(unhex(r.Out))
				digests[i] = hx(h[:])
			}
			dist.Add(soloKey(*op))
		}
		// 4. values returned earlier, re-read at the end of the sequence
		last := res[len(res)-1]
		for _, inf := range last.Info {
			k := strings.IndexByte(inf, ':')
			if strings.HasPrefix(inf, "buf") {
				id := 0
				fmt.Sscanf(inf[:k], "buf%d", &id)
				obs.Inc("entropy_buffers_reinspected_at_end")
				if want := bufAfterHex(g.bufs[id], false); inf[k+1:] != want {
					e.Violate(&Violation{What: fmt.Sprintf("sequence %s: caller-owned entropy buffer %d was %s and is %s at the end of the sequence", tag, id, want, inf[k+1:]), Ops: g.ops})
					return
				}
				continue
			}
			if strings.HasPrefix(inf, "err") {
				// an error value returned earlier: its text must still be what it was
				var ei int
				fmt.Sscanf(inf[:k], "err%d", &ei)
				if ei < 0 || ei >= len(res) || res[ei].Err == nil {
					continue
				}
				obs.Inc("retained_error_values_reread")
				h := sha256.Sum256(unhex(res[ei].Err.Msg))
				if hx(h[:]) != inf[k+1:] {
					e.Violate(&Violation{What: fmt.Sprintf("sequence %s: the error value returned by call %d (%s: %q) reads differently at the end of the sequence: a later call altered it", tag, ei, fnName(g.ops[ei].Fn), errText(res[ei].Err)), Ops: g.ops, Detail: "error values are retained by the child and their Error() text is read again after the last call"})
					return
				}
				continue
			}
			var i int
			fmt.Sscanf(inf[:k], "%d", &i)
			obs.Inc("retained_results_reread")
			if d, ok := digests[i]; ok && d != inf[k+1:] {
				e.Violate(&Violation{What: fmt.Sprintf("sequence %s: the value returned by call %d (%s) was altered by a later call (digest then %s, at the end %s)", tag, i, fnName(g.ops[i].Fn), d, inf[k+1:]), Ops: g.ops})
				return
			}
		}
		smp.Add(map[string]any{"sequence": tag, "calls": len(g.ops), "first_calls": summarize(g.ops, 6)})
	}

	// (a) every ordered pair of first-used languages, each in its own fresh process
	langs := []int64{0, 1, 2, 3, 4, 5, 6, 7, 8, 9}
	if e.Thorough() {
		langs = append(langs, -1, 10, 100)
	}
	type pairJob struct {
		l1, l2 int64
		kind   int
		rep    int
	}
	var jobs []pairJob
	for _, a := range langs {
		for _, b := range langs {
			if e.Thorough() {
				for k := 0; k < 3; k++ {
					for rep := 0; rep < 2; rep++ {
						jobs = append(jobs, pairJob{a, b, k, rep})
					}
				}
			} else {
				jobs = append(jobs, pairJob{a, b, int(a+b) % 3, 0})
			}
		}
	}
	parallel(len(jobs), e.Workers, func(j int) {
		jb := jobs[j]
		g := &seqGen{e: e, r: rng.New(e.Seed, fmt.Sprintf("C13-pair-%d-%d-%d-%d", jb.l1, jb.l2, jb.kind, jb.rep)), bufs: map[int][]byte{}}
		first := func(l int64) {
			sl := int(l)
			if l < 0 || l >= ref.NLang {
				sl = 2
			}
			s := g.validSentence(sl)
			switch jb.kind {
			case 0:
				g.add(plan.Op{Fn: "chk", L: l, S: hxs(s)})
			case 1:
				g.add(plan.Op{Fn: "val", L: l, S: hxs(strings.Replace(s, ref.Sep(sl), ref.Sep(sl)+"qzx ", 1))})
			case 2:
				g.add(plan.Op{Fn: "enc", L: l, E: hx(g.r.Bytes(16)), Keep: true})
				g.add(plan.Op{Fn: "chkval", L: l, S: hxs(s)})
			}
		}
		first(jb.l1)
		first(jb.l2)
		for _, l := range g.r.Perm(ref.NLang) {
			s := g.validSentence(l)
			g.add(plan.Op{Fn: "chkval", L: int64(l), S: hxs(s)})
			w := strings.Split(s, ref.Sep(l))
			w[len(w)-1] = e.Model.List[l][e.Model.Index[l][w[len(w)-1]]^1]
			g.add(plan.Op{Fn: "chk", L: int64(l), S: hxs(strings.Join(w, " "))})
			id := len(g.bufs) + 1
			g.bufs[id] = g.r.Bytes(ref.EntSizes[l%5])
			g.add(plan.Op{Fn: "enc", L: int64(l), E: hx(g.bufs[id]), Buf: id, Keep: true})
			g.add(plan.Op{Fn: "str", L: int64(l)})
		}
		g.add(plan.Op{Fn: "seed", S: hxs(g.validSentence(int(uint64(jb.l1+jb.l2) % 10))), P: hxs("x"), Keep: true})
		runSequence(fmt.Sprintf("pair(%d,%d,kind%d,rep%d)", jb.l1, jb.l2, jb.kind, jb.rep), g, 1)
		pairs.Add(fmt.Sprint(jb.l1, ",", jb.l2))
	})

	// (a') a failing or unsupported first call, then first use of each language
	type prelude struct {
		name string
		op   plan.Op
	}
	preludes := []prelude{
		{"unsupported-chk", plan.Op{Fn: "chk", L: 100, S: hxs("abandon abandon abandon abandon abandon abandon abandon abandon abandon abandon abandon about")}},
		{"unsupported-enc", plan.Op{Fn: "enc", L: -1, E: hx(make([]byte, 16))}},
		{"unsupported-new", plan.Op{Fn: "new", L: 10, N: 12, Src: &plan.Src{Data: hx(make([]byte, 16))}}},
		{"bad-size-enc", plan.Op{Fn: "enc", L: 2, E: hx(make([]byte, 17))}},
		{"bad-count-new", plan.Op{Fn: "new", L: 2, N: 13}},
		{"failing-source-new", plan.Op{Fn: "new", L: 2, N: 24, Src: &plan.Src{Data: "0011", Steps: []plan.Step{{N: 2, E: "custom"}}}}},
		{"bad-checksum-chk", plan.Op{Fn: "chk", L: 2, S: hxs("abandon abandon abandon abandon abandon abandon abandon abandon abandon abandon abandon abandon")}},
		{"unknown-word-chk", plan.Op{Fn: "chk", L: 2, S: hxs("abandon abandon abandon abandon abandon abandon abandon abandon abandon abandon abandon qzx")}},
		{"string-of-unsupported", plan.Op{Fn: "str", L: -7}},
		{"huge-seed", plan.Op{Fn: "seed", SSegs: []plan.Seg{{H: "e38182", R: 5000}}, P: hxs("x")}},
	}
	parallel(len(preludes)*ref.NLang, e.Workers, func(j int) {
		pl, l := preludes[j/ref.NLang], j%ref.NLang
		g := &seqGen{e: e, r: rng.New(e.Seed, fmt.Sprintf("C13-prelude-%s-%d", pl.name, l)), bufs: map[int][]byte{}}
		g.add(pl.op)
		g.add(pl.op)
		order := append([]int{l}, g.r.Perm(ref.NLang)...)
		for _, x := range order {
			s := g.validSentence(x)
			g.add(plan.Op{Fn: "chkval", L: int64(x), S: hxs(s)})
			g.add(plan.Op{Fn: "enc", L: int64(x), E: hx(g.r.Bytes(ref.EntSizes[g.r.Intn(5)])), Keep: true})
			g.add(plan.Op{Fn: "str", L: int64(x)})
		}
		sd := plan.Op{Fn: "seed", S: hxs(g.validSentence(l)), P: hxs("pw"), Keep: true}
		g.add(sd)
		g.add(sd)
		g.add(plan.Op{Fn: "seed", S: hxs(g.validSentence(l)), P: hxs("other"), Keep: true})
		runSequence(fmt.Sprintf("prelude(%s,%d)", pl.name, l), g, 1)
	})

	// (a3) every ordered pair of first-used entropy sizes / word counts
	parallel(25, e.Workers, func(j int) {
		a, b := j/5, j%5
		g := &seqGen{e: e, r: rng.New(e.Seed, fmt.Sprintf("C13-sizes-%d-%d", a, b)), bufs: map[int][]byte{}}
		l1, l2 := g.r.Intn(ref.NLang), g.r.Intn(ref.NLang)
		for _, si := range []int{a, b, a, 4 - a, b} {
			ent := g.r.Bytes(ref.EntSizes[si])
			g.add(plan.Op{Fn: "enc", L: int64(l1), E: hx(ent), Keep: true})
			g.add(plan.Op{Fn: "chkval", L: int64(l1), S: hxs(e.Model.Enc(ent, l1))})
			g.add(plan.Op{Fn: "new", L: int64(l2), N: int64(ref.WordCounts[si]), Src: &plan.Src{Data: hx(g.r.Bytes(40))}, Keep: true})
			g.add(plan.Op{Fn: "chk", L: int64(l2), S: hxs(e.Model.Enc(g.r.Bytes(ref.EntSizes[si]), l2))})
		}
		runSequence(fmt.Sprintf("sizes(%d,%d)", ref.EntSizes[a], ref.EntSizes[b]), g, 1)
	})

	// (a'') memo-hunting patterns
	nhunt := e.pick(32, 400)
	parallel(nhunt, e.Workers, func(h int) {
		g := &seqGen{e: e, r: rng.New(e.Seed, "C13-hunt-"+itoa(h)), bufs: map[int][]byte{}}
		g.memoHunt(4)
		runSequence("hunt"+itoa(h), g, 1)
	})

	// (a3) the same calls before and after the process has been idle for a while and the
	// garbage collector has run (entries that expire, pools that are emptied)
	npause := e.pick(6, 24)
	parallel(npause, e.Workers, func(h int) {
		g := &seqGen{e: e, r: rng.New(e.Seed, "C13-pause-"+itoa(h)), bufs: map[int][]byte{}}
		g.memoHunt(1)
		first := append([]plan.Op(nil), g.ops...)
		for _, ms := range []int64{1100, 2100} {
			g.add(plan.Op{Fn: "pause", N: ms})
			for k, op := range first {
				if k%3 == h%3 { // a third of the calls again, in the same order
					g.add(op)
				}
			}
		}
		obs.Inc("sequences_with_idle_periods")
		runSequence("pause"+itoa(h), g, 1)
	})

	// (a4) n distinct calls, then the same calls again and once more in reverse order: bounded
	// caches, rings and memos that wrap
	var wraps [][2]int
	for family := 0; family < 5; family++ {
		for _, n := range []int{20, 40, 150, 600, e.pick(2500, 12000)} {
			if family == 3 && n > 150 {
				continue // 2048 rounds of HMAC each
			}
			wraps = append(wraps, [2]int{family, n})
		}
	}
	parallel(len(wraps), e.Workers, func(k int) {
		g := &seqGen{e: e, r: rng.New(e.Seed, "C13-wrap-"+itoa(k)), bufs: map[int][]byte{}}
		g.cacheWrap(wraps[k][0], wraps[k][1])
		obs.Inc("cache_wrap_sequences")
		runSequence(fmt.Sprintf("wrap(family %d, %d distinct calls)", wraps[k][0], wraps[k][1]), g, 97)
	})

	// (a5) the same call 70 000 times in a row (300 times for seeds), then probes of the other
	// functions: counters that wrap at 2^8 or 2^16, tables that fill up
	{
		r := rng.New(e.Seed, "C13-rep")
		m := e.Model
		var reps []plan.Op
		for k := 0; k < 6; k++ {
			l := r.Intn(ref.NLang)
			ent := r.Bytes(ref.EntSizes[r.Intn(5)])
			w := m.Words(ent, l)
			bad := append([]string(nil), w...)
			bad[len(bad)-1] = m.List[l][m.Index[l][bad[len(bad)-1]]^1]
			n := e.pick(70000, 300000)
			reps = append(reps, []plan.Op{
				{Fn: "chk", L: int64(l), S: hxs(strings.Join(w, " ")), Rep: n},
				{Fn: "val", L: int64(l), S: hxs(strings.Join(bad, "\u3000")), Rep: n},
				{Fn: "enc", L: int64(l), E: hx(ent), Rep: n},
				{Fn: "str", L: int64(l), Rep: n},
				{Fn: "str", L: int64(1000 + k), Rep: n},
				{Fn: "seed", S: hxs(strings.Join(w, "\u3000")), P: hxs("\uff50"), Rep: 300},
				{Fn: "new", L: int64(l), N: int64(len(w)), Src: &plan.Src{Data: hx(ent)}, Rep: 300},
				{Fn: "chk", L: int64(l), S: hxs(strings.Join(w[1:], " ")), Rep: n},
			}[k%8+0])
			if k < 2 {
				reps = append(reps, plan.Op{Fn: "chk", L: int64(l), S: hxs(strings.Join(w[:len(w)-1], " ") + " qzx"), Rep: n})
			}
		}
		// every kind at least once
		l := 3
		ent := r.Bytes(16)
		w := m.Words(ent, l)
		reps = append(reps, plan.Op{Fn: "seed", S: hxs(strings.Join(w, "\u3000")), P: hxs("\uff50"), Rep: 300},
			plan.Op{Fn: "new", L: int64(l), N: 12, Src: &plan.Src{Data: hx(ent)}, Rep: 300},
			plan.Op{Fn: "chk", L: int64(l), S: hxs(strings.Join(w[1:], " ")), Rep: e.pick(70000, 300000)})
		parallel(len(reps), e.Workers, func(k int) {
			g := &seqGen{e: e, r: rng.New(e.Seed, "C13-rep-"+itoa(k)), bufs: map[int][]byte{}}
			g.add(reps[k])
			g.memoHunt(1)
			obs.Inc("sequences_with_one_call_repeated_many_times")
			g.add(plan.Op{Fn: "keepdump"})
			res, died := e.RunProc(drv, g.ops, nil, 0)
			if died != "" || len(res) != len(g.ops) {
				e.Violate(&Violation{What: fmt.Sprintf("the process ended while %s was repeated %d times: %s", fnName(reps[k].Fn), reps[k].Rep, oneLine(died, 300)), Ops: g.ops[:1]})
				return
			}
			for _, inf := range res[0].Info {
				if strings.HasPrefix(inf, "rep-diverged-at=") {
					e.Violate(&Violation{What: fmt.Sprintf("%s called %d times in a row with the same arguments: repetition %s returned something else than the first call (%s)", fnName(reps[k].Fn), reps[k].Rep, strings.TrimPrefix(inf, "rep-diverged-at="), strings.Join(res[0].Info, ", ")),
						Ops: g.ops[:1], Observed: res[0]})
					return
				}
			}
			mu.Lock()
			totalOps += reps[k].Rep
			mu.Unlock()
			// the calls after it are compared with the reference and, on deviation, with solo
			for i := 1; i < len(res)-1; i++ {
				op, rr := &g.ops[i], &res[i]
				if why := e.confirmedDeviation(drv, op, rr, e.refEval(op)); why != "" && rr.Panic == "" {
					e.Violate(&Violation{What: fmt.Sprintf("after %s had been called %d times in a row, call %d %s(lang %d): %s", fnName(reps[k].Fn), reps[k].Rep, i, fnName(op.Fn), op.L, why),
						Ops: g.ops[:i+1], Observed: rr, Detail: historyNote})
					return
				}
			}
		})
	}

	// (b) random sequences
	nseq := e.pick(60, 2000)
	parallel(nseq, e.Workers, func(s int) {
		g := &seqGen{e: e, r: rng.New(e.Seed, "C13-seq-"+itoa(s)), bufs: map[int][]byte{}}
		var recent []plan.Op
		n := 100 + g.r.Intn(201)
		for i := 0; i < n; i++ {
			g.randomOp(&recent)
		}
		every := 1
		if e.Thorough() {
			every = 8
		}
		runSequence("seq"+itoa(s), g, every)
	})

	// (c) long sequences: state that only shows after thousands of calls
	nlong := e.pick(2, 16)
	parallel(nlong, e.Workers, func(s int) {
		g := &seqGen{e: e, r: rng.New(e.Seed, "C13-long-"+itoa(s)), bufs: map[int][]byte{}}
		var recent []plan.Op
		for i := 0; i < e.pick(4000, 20000); i++ {
			g.randomOp(&recent)
		}
		runSequence("long"+itoa(s), g, e.pick(16, 64))
	})

	// (d) NewMnemonic over one source that stays installed, fails during some calls and works
	// again: a call during which the source works must not depend on the earlier failures
	transientCalls := e.transientHistories(drv, "C13", e.pick(60, 1000), func(c *transientCall) {
		// (whether a successful call encodes the delivered bytes correctly is C06's question)
		if why := c.workingSourceVerdict(); why != "" && (c.res.Err != nil || c.res.Panic != "") {
			e.Violate(&Violation{What: "the outcome depends on an earlier failure of the source: " + why, Ops: c.ops[:c.i+1], Observed: c.res, Detail: historyNote})
		}
	})
	obs.Add("calls_on_a_source_that_fails_transiently_and_stays_installed", transientCalls)

	// (e) "a function of its arguments alone" also means: not of what other goroutines are
	// calling at the moment. All functions mixed (generators next to validators next to seeds),
	// judged against the same call executed alone (C12 is the full treatment)
	mixed := append(append(append(e.smokePool("C13", "enc"), e.smokePool("C13", "chk")...), e.smokePool("C13", "seed")...), e.smokePool("C13", "str")...)
	concCalls := e.concurrentSmoke(drv, "C13", mixed, e.pick(6, 24), e.pick(150, 600), func(op *plan.Op, r *plan.Res) string {
		if op.Fn == "new" && op.Src == nil {
			return ""
		}
		return e.confirmedDeviation(drv, op, r, e.refEval(op))
	})
	obs.Add("calls_repeated_under_concurrency", concCalls)

	wantPairs := len(langs) * len(langs)
	if e.Violations() == 0 && pairs.Len() != wantPairs {
		fatalInconclusive("C13: %d of %d ordered first-use pairs covered", pairs.Len(), wantPairs)
	}
	e.WriteEvidence("exploration", map[string]any{
		"evaluations":                      totalOps,
		"distinct_nontrivial":              dist.Len(),
		"rule":                             "cases are call sequences executed in one fresh process each: (a) every ordered pair of first-used languages (10x10; thorough 13x13 incl. -1, 10, 100, three first-call kinds, two repetitions) followed by probe calls on all ten languages; (a') ten kinds of failing or unsupported first calls, each followed by first use of every language; (a'') memo-hunting patterns (a string accepted under one language asked under another, under an unsupported value that aliases a language after truncation to 8/16/32 bits and then under that language, the same words in another spelling, a near miss right after a hit, the same entropy under another language, identical and almost identical seed arguments, scripted sources replayed under another language); (a3) the same calls again after the process was idle for 1.1 s and 2.1 s with garbage collections in between; (a4) 20 to 2500 (thorough 12000) distinct calls of one kind, then the same calls again and once more in reverse order (bounded caches that wrap or evict); (a5) one call repeated 70 000 (thorough 300 000) times in a row — 300 times for seeds and scripted NewMnemonic — and then calls of all functions; (b) seeded random sequences of 100-300 calls (one call in five is repeated immediately, then followed by different ones) over all six functions, ten languages and unsupported values, with failing calls, repeated inputs far apart, caller-owned entropy buffers reused across calls, and NewMnemonic on scripted and default sources; every result is compared with the history-free reference model and with the same call executed alone as the first call of another fresh process (all deterministic calls in quick; one in eight of the random sequences' calls in thorough); (c) a few sequences of 4000 (thorough 20000) calls; (d) NewMnemonic over one scripted source that stays installed across calls, reports transient errors during some of them and then works again; (e) a small pool of calls of all functions repeated by 8-16 goroutines from a cold start, every observation compared with the same call executed alone; entropy buffers are re-inspected after every call and at the end, and every retained result is re-read (digest) at the end of its sequence; non-trivial = every call with history; distinct = distinct calls (function, arguments)",
		"samples":                          smp.List(),
		"ordered_first_use_pairs_covered":  pairs.Len(),
		"ordered_first_use_pairs_possible": wantPairs,
		"observations":                     obs.Map(),
		"sequences":                        len(jobs) + nseq,
	}, []string{
		"reference model (golden lists, CPython NFKD, own PBKDF2) for calls on supported languages; calls on unsupported Language values are compared with their solo execution only",
		"NewMnemonic on the default source is checked for validity and word count only (its bytes are not reproducible)",
	})
}

func bufAfterHex(b []byte, isNil bool) string {
	if isNil {
		return "nil"
	}
	if len(b) <= 64 {
		return hx(b)
	}
	h := sha256.Sum256(b)
	return "sha256:" + hx(h[:])
}

func summarize(ops []plan.Op, n int) []string {
	var out []string
	for i := 0; i < len(ops) && i < n; i++ {
		out = append(out, fmt.Sprintf("%s(lang=%d,n=%d)", fnName(ops[i].Fn), ops[i].L, ops[i].N))
	}
	return out
}

// runHistories executes n memo-hunting call sequences (each in its own fresh
// process) and hands every sequence with its results to judge. It is the shared
// "history" workload of the per-function monitors; C13 judges the same sequences
// against the full reference model and solo executions.
func (e *Env) runHistories(drv, label string, n, rounds int, judge func(ops []plan.Op, res []plan.Res)) int {
	var mu sync.Mutex
	calls := 0
	// many distinct calls of the monitor's own kind, then the same ones again (bounded caches)
	families := map[string][]int{"C01": {2}, "C05": {2}, "C09": {2}, "C02": {0, 1}, "C03": {0, 1}, "C15": {0, 1}, "C04": {3}, "C11": {3}}[label]
	var wraps [][2]int
	for _, f := range families {
		for _, size := range []int{40, e.pick(600, 3000)} {
			if f == 3 && size > 150 {
				size = 150
			}
			wraps = append(wraps, [2]int{f, size})
		}
	}
	parallel(len(wraps), e.Workers, func(k int) {
		g := &seqGen{e: e, r: rng.New(e.Seed, label+"-wrap-"+itoa(k)), bufs: map[int][]byte{}}
		g.cacheWrap(wraps[k][0], wraps[k][1])
		for i := range g.ops {
			g.ops[i].Keep = false
		}
		res, died := e.RunProc(drv, g.ops, nil, 0)
		if died != "" || len(res) != len(g.ops) {
			return // the memo-hunting histories below report crashes
		}
		mu.Lock()
		calls += len(res)
		mu.Unlock()
		judge(g.ops, res)
	})
	parallel(n, e.Workers, func(h int) {
		g := &seqGen{e: e, r: rng.New(e.Seed, label+"-hist-"+itoa(h)), bufs: map[int][]byte{}}
		g.memoHunt(rounds)
		res, died := e.RunProc(drv, g.ops, nil, 0)
		if died != "" {
			e.Violate(&Violation{What: "a sequence of calls killed the process: " + oneLine(died, 300), Ops: g.ops[:min(len(res)+1, len(g.ops))]})
			return
		}
		mu.Lock()
		calls += len(res)
		mu.Unlock()
		judge(g.ops, res)
	})
	return calls
}

const historyNote = "the failing call is the last of ops; the preceding ones are its history"
