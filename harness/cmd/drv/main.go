// Command drv is the only binary that links the code under test. It executes
// the calls the parent planned, one by one, and reports what it observed. It
// performs no checking.
package main

import (
	"bufio"
	"bytes"
	"crypto/rand"
	"crypto/sha256"
	"encoding/hex"
	"encoding/json"
	"errors"
	"flag"
	"fmt"
	"io"
	"os"
	"reflect"
	"runtime"
	"runtime/debug"
	"strconv"
	"strings"
	"sync"
	"syscall"
	"testing/iotest"
	"time"
	"unsafe"

	"aaverif/internal/earlyrand"
	"aaverif/internal/plan"
	"aaverif/internal/rng"

	"github.com/islishude/bip39"
)

var errCustom = errors.New("verif: scripted source failure")

// concMode: several goroutines call the package; interposer events are then
// attributed by goroutine id at the end instead of being drained per call.
var concMode bool

// concSlab is the buffer shared by all workers of a concurrent run (plan.Conc.Slab).
var concSlab []byte

var base = time.Now()

func now() int64 { return int64(time.Since(base)) }

func cpuNS() int64 {
	var ru syscall.Rusage
	if err := syscall.Getrusage(syscall.RUSAGE_SELF, &ru); err != nil {
		return 0
	}
	return ru.Utime.Nano() + ru.Stime.Nano()
}

func goid() int64 {
	var buf [64]byte
	n := runtime.Stack(buf[:], false)
	// "goroutine 123 [running]:"
	f := bytes.Fields(buf[:n])
	if len(f) < 2 {
		return -1
	}
	id, _ := strconv.ParseInt(string(f[1]), 10, 64)
	return id
}

// scripted randomness source ------------------------------------------------

type scripted struct {
	mu    sync.Mutex
	lock  bool // take mu in Read (shared source in conc mode)
	data  []byte
	off   int
	steps []plan.Step
	si    int
	fail  error
	failS string
	log   []plan.ReadEv
	wantG bool
	// keepData: the delivered bytes are recorded with every read (persistent sources)
	keepData bool
	max      int  // > 0: cap on every read after the steps
	cycle    bool // data wraps around instead of ending
}

func newScripted(s *plan.Src, lock bool) *scripted {
	d, err := hex.DecodeString(s.Data)
	if err != nil {
		panic(err)
	}
	return &scripted{data: d, steps: s.Steps, lock: lock, wantG: lock, max: s.Max, cycle: s.Cycle && len(d) > 0}
}

// tempErr is a transient-looking error (net.Error shape).
type tempErr struct{ timeout bool }

func (e tempErr) Error() string   { return "verif: transient source failure" }
func (e tempErr) Temporary() bool { return true }
func (e tempErr) Timeout() bool   { return e.timeout }

func kindErr(k string) error {
	switch k {
	case "eof":
		return io.EOF
	case "ueof":
		return io.ErrUnexpectedEOF
	case "custom":
		return errCustom
	case "eintr":
		return syscall.EINTR
	case "eagain":
		return syscall.EAGAIN
	case "patherr":
		return &os.PathError{Op: "read", Path: "/dev/urandom", Err: syscall.EINTR}
	case "temporary":
		return tempErr{}
	case "timeout":
		return tempErr{timeout: true}
	case "deadline":
		return os.ErrDeadlineExceeded
	case "noprogress":
		return io.ErrNoProgress
	case "shortbuffer":
		return io.ErrShortBuffer
	case "closedpipe":
		return io.ErrClosedPipe
	case "wrappedeof":
		return fmt.Errorf("verif: wrapped: %w", io.EOF)
	case "enoent":
		return &os.PathError{Op: "open", Path: "/dev/urandom", Err: syscall.ENOENT}
	case "enosys":
		return syscall.ENOSYS
	}
	return nil
}

func (s *scripted) logLen() int {
	if s.lock {
		s.mu.Lock()
		defer s.mu.Unlock()
	}
	return len(s.log)
}

func (s *scripted) unlockedPause() {
	runtime.GC()
	time.Sleep(2 * time.Millisecond)
	runtime.GC()
	runtime.Gosched()
}

func (s *scripted) Read(p []byte) (int, error) {
	if s.lock {
		s.mu.Lock()
		defer s.mu.Unlock()
	}
	ev := plan.ReadEv{Req: len(p)}
	if s.wantG {
		ev.G = goid()
	}
	if s.fail != nil {
		ev.E = s.failS
		s.log = append(s.log, ev)
		return 0, s.fail
	}
	want := len(p)
	var stepErr string
	stepOnce := false
	if s.si < len(s.steps) {
		st := &s.steps[s.si]
		if st.GC {
			// a slow read during which the process collects garbage and runs finalizers
			s.unlockedPause()
			st.GC = false
		}
		if st.N <= len(p) {
			want = st.N
			stepErr = st.E
			stepOnce = st.Once
			s.si++
		} else {
			// the step asks for more than this read can take: deliver a full
			// read now and keep the remainder of the step for the next one
			st.N -= len(p)
		}
	}
	if s.si >= len(s.steps) && stepErr == "" && s.max > 0 && want > s.max {
		want = s.max
	}
	if s.cycle && s.off == len(s.data) {
		s.off = 0
	}
	if rem := len(s.data) - s.off; want > rem {
		want = rem
		if rem == 0 && stepErr == "" {
			// data exhausted although bytes were due: end of stream
			stepErr = "eof"
		}
	}
	n := copy(p[:want], s.data[s.off:s.off+want])
	s.off += n
	ev.N = n
	var err error
	if stepErr != "" {
		err = kindErr(stepErr)
		if !stepOnce {
			s.fail, s.failS = err, stepErr
		}
		ev.E = stepErr
	}
	ev.D = hex.EncodeToString(p[:n])
	if !s.keepData {
		ev.D = ""
	}
	if !s.cycle || len(s.log) < 1<<12 {
		s.log = append(s.log, ev)
	}
	if stepErr == "panic-string" {
		// the same with a panic value that is not an error
		panic("verif: the scripted source panicked inside Read (string value)")
	}
	if stepErr == "panic" {
		// a caller-supplied source that panics inside Read (the caller recovers)
		panic(sourcePanic{})
	}
	return n, err
}

// readerFunc adapts a function to io.Reader; values of func type cannot be compared.
type readerFunc func([]byte) (int, error)

func (f readerFunc) Read(p []byte) (int, error) { return f(p) }

// sourcePanic is what a scripted source panics with: the caller's own fault, recognisable.
type sourcePanic struct{}

func (sourcePanic) Error() string { return "verif: the scripted source panicked inside Read" }

// helpers -------------------------------------------------------------------

// outHex encodes a returned value; values beyond 1 MiB are replaced by a
// marker carrying length and digest so that a runaway result cannot flood the
// parent.
func outHex(b []byte) string {
	if len(b) > 1<<20 {
		h := sha256.Sum256(b)
		return hex.EncodeToString([]byte(fmt.Sprintf("<<truncated len=%d sha256=%x>>", len(b), h)))
	}
	return hex.EncodeToString(b)
}

// errInfo records the error value for the end-of-sequence re-read and describes it.
func (st *state) errInfo(err error) *plan.ErrInfo {
	if err != nil {
		st.lastErr = err
	}
	return errInfo(err)
}

func errInfo(err error) *plan.ErrInfo {
	if err == nil {
		return nil
	}
	msg := err.Error()
	ei := &plan.ErrInfo{
		WordLen:  errors.Is(err, bip39.ErrWordLen),
		EntLen:   errors.Is(err, bip39.ErrEntropyLen),
		Checksum: errors.Is(err, bip39.ErrChecksumIncorrect),
		EOF:      errors.Is(err, io.EOF),
		UEOF:     errors.Is(err, io.ErrUnexpectedEOF),
		Custom:   errors.Is(err, errCustom),
		MsgLen:   len(msg),
		Type:     fmt.Sprintf("%T", err),
	}
	if len(msg) > plan.MsgCap {
		msg = msg[:plan.MsgCap]
	}
	ei.Msg = hex.EncodeToString([]byte(msg))
	return ei
}

func bufAfter(b []byte) string {
	if b == nil {
		return "nil"
	}
	if len(b) <= 64 {
		return hex.EncodeToString(b)
	}
	h := sha256.Sum256(b)
	return "sha256:" + hex.EncodeToString(h[:])
}

func same(a, b io.Reader) (eq bool) {
	defer func() {
		if recover() != nil {
			eq = false
		}
	}()
	return a == b
}

type kept struct {
	i int
	s string
	b []byte
}

// keptErr is an error value a call returned; its text is read again at the end of a sequence.
type keptErr struct {
	i int
	e error
}

type state struct {
	arena map[int][]byte
	bufs  map[int][]byte
	keep  []kept
	errs  []keptErr
	// address and length of the previous call's string argument (a number, not a reference)
	prevArgAddr uintptr
	prevArgLen  int
	// the error value of the call that exec is making (nil when none); per state, hence per goroutine
	lastErr error
	// a scripted source installed by "srcset" that stays in place over the following calls
	persist     *scripted
	persistPrev io.Reader
}

// exec runs one op. It never lets a panic escape.
var envTag = os.Getenv("VERIF_ENVTAG")

// observable is what two results of the same call are compared by.
func observable(r *plan.Res) string {
	s := r.Out + "|"
	if r.Err != nil {
		s += r.Err.Msg + fmt.Sprint(r.Err.WordLen, r.Err.EntLen, r.Err.Checksum)
	}
	if r.B != nil {
		s += fmt.Sprint("|", *r.B)
	}
	if r.Panic != "" {
		s += "|panic"
	}
	return s
}

func (st *state) exec(op *plan.Op, shared *scripted) (res plan.Res) {
	if op.Rep > 1 {
		// the same call many times in a row (counters that wrap, tables that fill up)
		one := *op
		one.Rep = 0
		res = st.exec(&one, shared)
		want := observable(&res)
		for k := 1; k < op.Rep; k++ {
			r := st.exec(&one, shared)
			if got := observable(&r); got != want {
				res.Info = append(res.Info, "rep-diverged-at="+strconv.Itoa(k), "rep-diverged-out="+r.Out, "rep-diverged-err="+fmt.Sprint(r.Err != nil), "rep-diverged-panic="+strconv.FormatBool(r.Panic != ""))
				break
			}
		}
		res.Info = append(res.Info, "rep="+strconv.Itoa(op.Rep))
		return res
	}
	res.I = op.I
	res.Env = envTag
	st.lastErr = nil
	defer func() {
		if st.lastErr != nil && len(st.errs) < 4096 && op.Fn != "keepdump" {
			st.errs = append(st.errs, keptErr{i: op.I, e: st.lastErr})
		}
	}()
	// decode arguments before the clock starts
	var ent, full []byte
	var s, p string
	var src *scripted
	switch op.Fn {
	case "enc", "encchk", "genhold", "encslab":
		if op.Fn == "genhold" {
			p = op.Pass() // the second entropy travels in the passphrase field
		}
		if op.Buf > 0 {
			if b, ok := st.bufs[op.Buf]; ok {
				ent = b
			} else {
				ent = op.Entropy()
				st.bufs[op.Buf] = ent
			}
		} else {
			ent = op.Entropy()
		}
		if op.SlabOff > 0 && concSlab != nil {
			// a window of the shared caller-owned buffer; it was filled before the barrier
			// the caller (re)writes its entropy into its own window before every call
			win := concSlab[op.SlabOff-1 : op.SlabOff-1+len(ent)]
			copy(win, ent)
			ent = win
		} else if op.Arena && ent != nil && op.Buf == 0 {
			// the caller recycles one buffer per length: new content, same backing array
			a, ok := st.arena[len(ent)]
			if !ok {
				a = make([]byte, len(ent))
				st.arena[len(ent)] = a
			}
			copy(a, ent)
			ent = a
		} else if op.Cap > 0 && ent != nil && op.Buf == 0 {
			// caller-owned backing array with spare capacity behind the slice
			full = make([]byte, len(ent)+op.Cap)
			copy(full, ent)
			for i := len(ent); i < len(full); i++ {
				full[i] = 0xA5
			}
			ent = full[:len(ent)]
		} else if ent != nil && op.Buf == 0 {
			ent = append(make([]byte, 0, len(ent)), ent...) // capacity == length
		}
	case "chk", "val", "chkval":
		s = op.Str()
	case "seed", "seed2":
		s, p = op.Str(), op.Pass()
	case "new", "newchk":
		if op.Src != nil {
			src = newScripted(op.Src, false)
		}
	}
	var prev io.Reader
	if src != nil {
		prev = bip39.VerifSwapRandSource(src)
	}
	if op.Fn == "chk" || op.Fn == "val" || op.Fn == "chkval" || op.Fn == "seed" {
		// the argument lives in its own heap object, like a string a caller just built
		if op.Reuse && st.prevArgAddr != 0 && len(s) == st.prevArgLen && len(s) > 0 {
			// the previous call's argument is garbage by now: collect it and try to get this
			// argument allocated at the very same address (identity is not equality)
			runtime.GC()
			var hold []string
			for try := 0; try < 512; try++ {
				cand := string(append([]byte(nil), s...))
				if uintptr(unsafe.Pointer(unsafe.StringData(cand))) == st.prevArgAddr {
					s = cand
					res.Info = append(res.Info, "address-reused")
					break
				}
				hold = append(hold, cand)
			}
			runtime.KeepAlive(hold)
		} else if len(s) > 0 {
			s = string(append([]byte(nil), s...))
		}
		if len(s) > 0 {
			st.prevArgAddr, st.prevArgLen = uintptr(unsafe.Pointer(unsafe.StringData(s))), len(s)
		}
	}
	isNew := op.Fn == "new" || op.Fn == "newchk"
	persistMark := -1
	if isNew && src == nil && st.persist != nil {
		persistMark = len(st.persist.log)
	}
	if isNew && src == nil && !op.Shared && earlyrand.Wrapper != nil && !concMode {
		earlyrand.Wrapper.Drain()
	}
	for i := 0; i < op.Spin; i++ {
		runtime.Gosched()
	}
	logMark := 0
	if concMode && isNew && earlyrand.Wrapper != nil {
		logMark = earlyrand.Wrapper.Len()
	}
	sharedMark := -1
	if isNew && op.Shared && shared != nil {
		sharedMark = shared.logLen()
	}
	c0 := cpuNS()
	res.T0 = now()
	func() {
		defer func() {
			if r := recover(); r != nil {
				res.Panic = fmt.Sprintf("%v\n%s", r, debug.Stack())
			}
		}()
		switch op.Fn {
		case "enc":
			out, err := bip39.NewMnemonicByEntropy(ent, bip39.Language(op.L))
			res.Out, res.OutOK, res.Err = outHex([]byte(out)), true, st.errInfo(err)
			if op.Keep {
				st.keep = append(st.keep, kept{i: op.I, s: out})
			}
		case "new":
			out, err := bip39.NewMnemonic(int(op.N), bip39.Language(op.L))
			res.Out, res.OutOK, res.Err = outHex([]byte(out)), true, st.errInfo(err)
			if op.Keep {
				st.keep = append(st.keep, kept{i: op.I, s: out})
			}
		case "encchk", "newchk":
			var out string
			var err error
			if op.Fn == "encchk" {
				out, err = bip39.NewMnemonicByEntropy(ent, bip39.Language(op.L))
			} else {
				out, err = bip39.NewMnemonic(int(op.N), bip39.Language(op.L))
			}
			res.Out, res.Err = outHex([]byte(out)), st.errInfo(err)
			res.Err2 = st.errInfo(bip39.CheckMnemonic(out, bip39.Language(op.L)))
			b := bip39.IsMnemonicValid(out, bip39.Language(op.L))
			res.B, res.OutOK = &b, true
		case "encslab":
			// the caller carves several entropies of op.N bytes out of ONE buffer and
			// encodes them one after the other; the buffer is reported afterwards
			size := int(op.N)
			var outs []string
			for off := 0; size > 0 && off+size <= len(ent); off += size {
				o, err := bip39.NewMnemonicByEntropy(ent[off:off+size], bip39.Language(op.L))
				if err != nil {
					res.Err = st.errInfo(err)
				}
				outs = append(outs, o)
			}
			res.Out, res.OutOK = outHex([]byte(strings.Join(outs, "\n"))), true
		case "genhold":
			// generate from the first entropy, HOLD the result, generate from the second,
			// then validate the held mnemonic and report it as it reads now
			held, err := bip39.NewMnemonicByEntropy(ent, bip39.Language(op.L))
			second, _ := bip39.NewMnemonicByEntropy([]byte(p), bip39.Language(op.L))
			res.Out, res.Err = outHex([]byte(held)), st.errInfo(err)
			res.Out2 = outHex([]byte(second))
			res.Err2 = st.errInfo(bip39.CheckMnemonic(held, bip39.Language(op.L)))
			b := bip39.IsMnemonicValid(held, bip39.Language(op.L))
			res.B, res.OutOK = &b, true
		case "chk":
			res.Err = st.errInfo(bip39.CheckMnemonic(s, bip39.Language(op.L)))
			res.OutOK = true
		case "val":
			b := bip39.IsMnemonicValid(s, bip39.Language(op.L))
			res.B, res.OutOK = &b, true
		case "chkval":
			res.Err = st.errInfo(bip39.CheckMnemonic(s, bip39.Language(op.L)))
			b := bip39.IsMnemonicValid(s, bip39.Language(op.L))
			res.B, res.OutOK = &b, true
		case "seed":
			out := bip39.MnemonicToSeed(s, p)
			// the caller copies the seed and wipes the slice it was given at once, as a
			// careful wallet does: what other callers hold must not change
			keep := append([]byte(nil), out...)
			if !op.Keep {
				for i := range out {
					out[i] = 0
				}
			}
			res.Out, res.OutOK = outHex(keep), true
			if out == nil {
				res.Info = append(res.Info, "nil")
			}
			if op.Keep {
				st.keep = append(st.keep, kept{i: op.I, b: out})
			}
		case "seed2":
			a := bip39.MnemonicToSeed(s, p)
			res.Out = hex.EncodeToString(a)
			b := bip39.MnemonicToSeed(s, p)
			res.Out2 = hex.EncodeToString(b)
			// clobber the whole capacity of the second result, let the garbage collector and
			// the finalizers run, then re-read the first
			bb := b[:cap(b)]
			for i := range bb {
				bb[i] = 0xFF
			}
			runtime.GC()
			time.Sleep(time.Millisecond)
			runtime.GC()
			runtime.Gosched()
			res.Out1b = hex.EncodeToString(a)
			// a later call with the same arguments must not see what the caller did to b
			res.Out3 = hex.EncodeToString(bip39.MnemonicToSeed(s, p))
			if cap(a) > 0 && cap(b) > 0 {
				pa := uintptr(unsafe.Pointer(unsafe.SliceData(a[:cap(a)])))
				pb := uintptr(unsafe.Pointer(unsafe.SliceData(b[:cap(b)])))
				res.Alias = pa < pb+uintptr(cap(b)) && pb < pa+uintptr(cap(a))
			}
			res.Info = append(res.Info, fmt.Sprintf("len=%d,%d cap=%d,%d", len(a), len(b), cap(a), cap(b)))
			res.OutOK = true
		case "str":
			out := bip39.Language(op.L).String()
			res.Out, res.OutOK = outHex([]byte(out)), true
		case "strrange":
			h := sha256.New()
			for v := op.Lo; ; v++ {
				io.WriteString(h, bip39.Language(v).String())
				h.Write([]byte{'\n'})
				if v == op.Hi {
					break
				}
			}
			res.Dig, res.OutOK = hex.EncodeToString(h.Sum(nil)), true
		case "strrand":
			// String() of op.N pseudo-random Language values drawn from the harness PRNG
			// seeded with op.Lo, in one uninterrupted history; digest of all names and
			// the last name itself
			g := rng.New(uint64(op.Lo), "strrand")
			h := sha256.New()
			last := ""
			for k := int64(0); k < op.N; k++ {
				last = bip39.Language(int64(g.Uint64())).String()
				io.WriteString(h, last)
				h.Write([]byte{'\n'})
			}
			res.Dig, res.Out, res.OutOK = hex.EncodeToString(h.Sum(nil)), outHex([]byte(last)), true
		case "pause":
			// the process is idle for op.N milliseconds and the garbage collector runs twice
			// (sync.Pool drops its contents after two cycles)
			runtime.GC()
			time.Sleep(time.Duration(op.N) * time.Millisecond)
			runtime.GC()
			res.OutOK = true
		case "srcset":
			if st.persist != nil {
				bip39.VerifSwapRandSource(st.persistPrev)
			}
			st.persist = newScripted(op.Src, false)
			st.persist.keepData = true
			var installed io.Reader = st.persist
			switch op.Src.Wrap {
			case "bufio":
				installed = bufio.NewReader(st.persist)
			case "bufio16":
				installed = bufio.NewReaderSize(st.persist, 16)
			case "multi":
				installed = io.MultiReader(st.persist)
			case "limited":
				installed = &io.LimitedReader{R: st.persist, N: 1 << 40}
			case "iotest-onebyte":
				installed = iotest.OneByteReader(st.persist)
			case "func":
				// a source whose dynamic type is a func type (not comparable)
				installed = readerFunc(st.persist.Read)
			}
			st.persistPrev = bip39.VerifSwapRandSource(installed)
			res.OutOK = true
		case "srcunset":
			if st.persist != nil {
				bip39.VerifSwapRandSource(st.persistPrev)
				st.persist, st.persistPrev = nil, nil
			}
			res.OutOK = true
		case "ident":
			probe := &scripted{}
			pv := bip39.VerifSwapRandSource(probe)
			back := bip39.VerifSwapRandSource(pv)
			res.Info = []string{
				"prev_is_current_rand_reader=" + strconv.FormatBool(same(pv, rand.Reader)),
				"prev_is_original_rand_reader=" + strconv.FormatBool(same(pv, earlyrand.Orig)),
				"prev_is_wrapper=" + strconv.FormatBool(earlyrand.Wrapper != nil && same(pv, earlyrand.Wrapper)),
				"wrapper_active=" + strconv.FormatBool(earlyrand.Wrapper != nil),
				"restore_returned_probe=" + strconv.FormatBool(same(back, probe)),
				"prev_type=" + fmt.Sprintf("%T", pv),
				"prev_kind=" + kindOf(pv),
			}
			res.OutOK = true
		case "keepdump":
			for _, k := range st.keep {
				var h [32]byte
				if k.b != nil {
					h = sha256.Sum256(k.b)
				} else {
					h = sha256.Sum256([]byte(k.s))
				}
				res.Info = append(res.Info, strconv.Itoa(k.i)+":"+hex.EncodeToString(h[:]))
			}
			for id, b := range st.bufs {
				res.Info = append(res.Info, "buf"+strconv.Itoa(id)+":"+bufAfter(b))
			}
			// error values returned earlier, read again now
			for _, ke := range st.errs {
				msg := func() (m string) {
					defer func() {
						if r := recover(); r != nil {
							m = "<panic in Error()>"
						}
					}()
					return ke.e.Error()
				}()
				if len(msg) > plan.MsgCap {
					msg = msg[:plan.MsgCap]
				}
				h := sha256.Sum256([]byte(msg))
				res.Info = append(res.Info, "err"+strconv.Itoa(ke.i)+":"+hex.EncodeToString(h[:]))
			}
			res.OutOK = true
		default:
			panic("drv: unknown op " + op.Fn)
		}
	}()
	res.T1 = now()
	res.CPU = cpuNS() - c0
	if src != nil {
		bip39.VerifSwapRandSource(prev)
		res.Reads = src.log
	}
	if persistMark >= 0 && st.persist != nil {
		res.Reads = append([]plan.ReadEv(nil), st.persist.log[persistMark:]...)
		res.Info = append(res.Info, "persistent-source")
	}
	if isNew && op.Shared && shared != nil {
		// attribution happens in the parent through goroutine ids
		res.Info = append(res.Info, "goid="+strconv.FormatInt(goid(), 10))
		// the positions of the shared source's log between which this call ran: the events of
		// this goroutine inside that window are this call's reads
		res.Info = append(res.Info, "sharedlog="+strconv.Itoa(sharedMark)+":"+strconv.Itoa(shared.logLen()))
	}
	if isNew && src == nil && !op.Shared && earlyrand.Wrapper != nil && !concMode {
		for _, e := range earlyrand.Wrapper.Drain() {
			ev := plan.ReadEv{Req: e.Req, N: e.N, D: hex.EncodeToString(e.Data)}
			if e.Err != nil {
				ev.E = e.Err.Error()
			}
			res.Reads = append(res.Reads, ev)
		}
		// what the library's own encoder makes of the delivered bytes, in this process and
		// right now: lets the parent tell "not the source's bytes" from "encoder deviates"
		if need := int(op.N) + int(op.N)/3; op.Fn == "new" && res.Err == nil && res.Panic == "" && op.N > 0 && op.N < 1000 {
			var delivered []byte
			for _, ev := range res.Reads {
				d, _ := hex.DecodeString(ev.D)
				delivered = append(delivered, d...)
			}
			if len(delivered) >= need {
				func() {
					defer func() { recover() }()
					if own, err := bip39.NewMnemonicByEntropy(delivered[:need], bip39.Language(op.L)); err == nil {
						res.Out2 = outHex([]byte(own))
					}
				}()
			}
		}
	}
	if concMode && op.Fn == "new" && src == nil && !op.Shared && earlyrand.Wrapper != nil && res.Err == nil && res.Panic == "" && op.N > 0 && op.N < 1000 {
		// as above, per goroutine: the bytes this goroutine drew during the call
		if d := earlyrand.Wrapper.FirstSince(goid(), logMark, int(op.N)+int(op.N)/3); d != nil {
			func() {
				defer func() { recover() }()
				if own, err := bip39.NewMnemonicByEntropy(d, bip39.Language(op.L)); err == nil {
					res.Out2 = outHex([]byte(own))
				}
			}()
		}
	}
	if op.Fn == "encslab" {
		res.IA = bufAfter(ent)
	} else if (op.Fn == "enc" || op.Fn == "encchk") && full != nil {
		res.IA = bufAfter(full)
	} else if op.Fn == "enc" || op.Fn == "encchk" {
		res.IA = bufAfter(ent)
	}
	return res
}

func kindOf(r io.Reader) string {
	if r == nil {
		return "nil"
	}
	return reflect.TypeOf(r).Kind().String()
}

func runExec(sync bool) {
	in := bufio.NewReaderSize(os.Stdin, 1<<20)
	out := bufio.NewWriterSize(os.Stdout, 1<<20)
	defer out.Flush()
	st := &state{bufs: map[int][]byte{}, arena: map[int][]byte{}}
	enc := json.NewEncoder(out)
	for {
		if in.Buffered() == 0 {
			// the next read may block: let the parent see what we have
			out.Flush()
		}
		line, err := in.ReadBytes('\n')
		if len(bytes.TrimSpace(line)) > 0 {
			var op plan.Op
			if e := json.Unmarshal(line, &op); e != nil {
				fmt.Fprintf(os.Stderr, "drv: bad plan line: %v\n", e)
				os.Exit(3)
			}
			if sync {
				fmt.Fprintf(out, "B %d %d\n", op.I, cpuNS())
				out.Flush()
			}
			res := st.exec(&op, nil)
			if e := enc.Encode(&res); e != nil {
				fmt.Fprintf(os.Stderr, "drv: encode: %v\n", e)
				os.Exit(3)
			}
			if sync {
				out.Flush()
			}
		}
		if err != nil {
			return
		}
	}
}

func runConc(path string) {
	raw, err := os.ReadFile(path)
	if err != nil {
		fmt.Fprintln(os.Stderr, "drv:", err)
		os.Exit(3)
	}
	var c plan.Conc
	if err := json.Unmarshal(raw, &c); err != nil {
		fmt.Fprintln(os.Stderr, "drv:", err)
		os.Exit(3)
	}
	if c.GCPercent > 0 {
		debug.SetGCPercent(c.GCPercent)
	}
	if c.GoMaxProcs > 0 {
		runtime.GOMAXPROCS(c.GoMaxProcs)
	}
	var pre []plan.Res
	if len(c.Pre) > 0 {
		st := &state{bufs: map[int][]byte{}, arena: map[int][]byte{}}
		for i := range c.Pre {
			r := st.exec(&c.Pre[i], nil)
			r.G = -1
			pre = append(pre, r)
		}
	}
	var shared *scripted
	if c.Shared != nil {
		shared = newScripted(c.Shared, true)
		// installed before any worker exists: the go statements below are the
		// happens-before edge, so the monitor itself adds no race
		bip39.VerifSwapRandSource(shared)
	}
	if earlyrand.Wrapper != nil {
		earlyrand.TrackG = true // set before the workers exist
		concMode = true
	}
	if c.Slab > 0 {
		concSlab = make([]byte, c.Slab)
		for w := range c.Workers {
			for i := range c.Workers[w] {
				if op := &c.Workers[w][i]; op.SlabOff > 0 {
					copy(concSlab[op.SlabOff-1:], op.Entropy())
				}
			}
		}
	}
	start := make(chan struct{})
	results := make([][]plan.Res, len(c.Workers))
	gids := make([]int64, len(c.Workers))
	var wg sync.WaitGroup
	for w := range c.Workers {
		wg.Add(1)
		go func(w int) {
			defer wg.Done()
			st := &state{bufs: map[int][]byte{}, arena: map[int][]byte{}}
			ops := c.Workers[w]
			local := make([]plan.Res, 0, len(ops))
			gids[w] = goid()
			<-start
			for i := range ops {
				r := st.exec(&ops[i], shared)
				r.G = w
				local = append(local, r)
			}
			// later passes: keep one sample of every distinct observation per op
			type aggKey struct {
				i   int
				dig [32]byte
			}
			agg := map[aggKey]*plan.Res{}
			var order []aggKey
			for loop := 1; loop < c.Loops; loop++ {
				for i := range ops {
					r := st.exec(&ops[i], shared)
					h := sha256.New()
					io.WriteString(h, r.Out)
					if r.Err != nil {
						io.WriteString(h, "|err|"+r.Err.Msg)
						fmt.Fprintf(h, "%v%v%v", r.Err.WordLen, r.Err.EntLen, r.Err.Checksum)
					}
					if r.B != nil {
						fmt.Fprintf(h, "|b|%v", *r.B)
					}
					if r.Panic != "" {
						io.WriteString(h, "|panic")
					}
					k := aggKey{i: i}
					copy(k.dig[:], h.Sum(nil))
					if a, ok := agg[k]; ok {
						a.Agg++
					} else {
						r.G, r.Agg = w, 1
						rr := r
						agg[k] = &rr
						order = append(order, k)
					}
				}
			}
			for _, k := range order {
				local = append(local, *agg[k])
			}
			results[w] = local
		}(w)
	}
	close(start)
	wg.Wait()
	out := bufio.NewWriterSize(os.Stdout, 1<<20)
	defer out.Flush()
	enc := json.NewEncoder(out)
	for i := range pre {
		enc.Encode(&pre[i])
	}
	for w := range results {
		for i := range results[w] {
			enc.Encode(&results[w][i])
		}
	}
	// trailer: goroutine ids and the shared source's read log
	tr := plan.Res{I: -1}
	for w, g := range gids {
		tr.Info = append(tr.Info, fmt.Sprintf("worker%d=goid%d", w, g))
	}
	if shared != nil {
		tr.Reads = shared.log
	}
	if earlyrand.Wrapper != nil {
		// default-source reads seen at the crypto/rand boundary, with the reading goroutine
		for _, e := range earlyrand.Wrapper.Drain() {
			ev := plan.ReadEv{Req: e.Req, N: e.N, G: e.G, D: hex.EncodeToString(e.Data)}
			if e.Err != nil {
				ev.E = e.Err.Error()
			}
			tr.Reads = append(tr.Reads, ev)
		}
	}
	enc.Encode(&tr)
}

func main() {
	mode := flag.String("mode", "exec", "exec | conc")
	sync := flag.Bool("sync", false, "exec: announce every call before making it and flush every result")
	planFile := flag.String("plan", "", "conc: plan file")
	flag.Parse()
	switch *mode {
	case "exec":
		runExec(*sync)
	case "conc":
		runConc(*planFile)
	default:
		fmt.Fprintln(os.Stderr, "drv: unknown mode")
		os.Exit(3)
	}
}
