#!/usr/bin/env python3
"""Regenerates /verif/MANIFEST.json from the table below (run from /verif)."""
import json, os, subprocess

HOOK_COMMITS = ["7fd8a4f"]

# id -> (category, technique, level text, level note, design ref)
CHECKS = {
 "C01": ("exploration", "runtime monitoring: online reference-model oracle (independent bit-array BIP39 encoder over frozen golden lists) on every NewMnemonicByEntropy call of a generated workload run in child processes",
         "Every (word position, 11-bit index) pair of the first n-1 words, every SHA-256 first-byte value at every checksum width, all bit/byte boundary runs and seeded random entropies are executed for all 10 languages x 5 sizes and each returned string is compared byte-for-byte with the reference sentence (separator rule included). Held-on-what-was-observed, with the factor coverage measured and written to the evidence.",
         "Trusted: golden lists (English digest = published digest), crypto/sha256, the harness reference encoder (self-tested on published vectors). The 2^128..2^256 entropy space itself is sampled, not enumerated.",
         "DESIGN.md section 5, C01"),
}

NOT_YET = {}

def main():
    props = [json.loads(l) for l in open("properties.jsonl")]
    checks = []
    na = []
    for p in props:
        pid = p["id"]
        if pid in CHECKS:
            cat, tech, text, note, ref = CHECKS[pid]
            checks.append({
                "property_id": pid,
                "quick_cmd": "./run.sh check %s quick" % pid,
                "thorough_cmd": "./run.sh check %s thorough" % pid,
                "evidence_file": "/verif/evidence/%s.json" % pid,
                "replay_cmd_template": "./run.sh replay {path}",
                "engine": "harness",
                "level_claimed": {"category": cat, "text": text, "design_ref": ref},
                "level_note": note,
                "technique": tech,
            })
        else:
            na.append({"property_id": pid, "reason": NOT_YET.get(pid, "check under construction in this session; not claimed until its monitor is committed")})
    m = {
        "version": 1,
        "setup_cmd": "./run.sh setup",
        "hooks": {
            "guard": "verif",
            "enable": "go build -tags verif (the harness module /verif/harness replaces github.com/islishude/bip39 by /repo and builds cmd/drv with -tags verif; update-wordlist is built with -tags verif for C17)",
            "baseline_off_cmd": "cd /repo && go test -mod=mod -json -vet=off -count=1 -timeout 25m ./...",
            "source_commits": HOOK_COMMITS,
            "add_only": True,
        },
        "engines": [{
            "name": "harness",
            "path": "/verif/harness",
            "serves_properties": [c["property_id"] for c in checks],
            "kind_free_text": "runtime monitoring: parent process (generators, independent reference model, monitors, evidence) drives child processes that link /repo's working tree with -tags verif and log every call; Go race detector for C12; CPython unicodedata co-process as independent NFKD oracle",
        }],
        "checks": checks,
        "not_applicable": na,
        "notes": "Exit 0 = held on everything explored, 1 = VIOLATION line + replay file, 2 = could not observe (never a verdict). Known findings: /verif/KNOWN_FINDINGS.txt. See DESIGN.md.",
    }
    json.dump(m, open("MANIFEST.json", "w"), indent=1)
    open("MANIFEST.json", "a").write("\n")

main()
