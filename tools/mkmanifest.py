#!/usr/bin/env python3
"""Regenerates /verif/MANIFEST.json from the table below (run from /verif)."""
import json, os, subprocess

HOOK_COMMITS = ["7fd8a4f"]  # fix commits (unguarded): 59fc98c (D1), a6495b1 (D2)

# id -> (category, technique, level text, level note, design ref)
CHECKS = {
 "C01": ("exploration", "runtime monitoring: online reference-model oracle (independent bit-array BIP39 encoder over frozen golden lists) on every NewMnemonicByEntropy call of a generated workload run in child processes",
         "Every (word position, 11-bit index) pair of the first n-1 words, every SHA-256 first-byte value at every checksum width, all bit/byte boundary runs, runs of ones/zeros at every offset, byte-value sweeps, sentences made of the longest and shortest list words, seeded random entropies, in-process call histories (incl. many distinct encodings repeated), entropies passed in recycled and shared caller-owned buffers, and a concurrent flavour with both generators as bystanders are executed for all 10 languages x 5 sizes and each returned string is compared byte-for-byte with the reference sentence (separator rule included). Held-on-what-was-observed, with the factor coverage measured and written to the evidence.",
         "Trusted: golden lists (English digest = published digest), crypto/sha256, the harness reference encoder (self-tested on published vectors). The 2^128..2^256 entropy space itself is sampled, not enumerated.",
         "DESIGN.md section 5, C01"),
 "C02": ("exploration", "runtime monitoring: generate->check pairs executed in child processes; acceptance oracle on the implementation's own output and on reference-encoded sentences",
         "The C01 corpus (every list word at every position, 1..32 leading zero bytes, all-ones, boundary runs, longest/shortest-word sentences, byte-value sweeps, random) is encoded and fed straight back into CheckMnemonic/IsMnemonicValid in the child; the reference encoder's sentence for the same entropy is validated too, so a compensating encoder/validator bug pair cannot hide; NewMnemonic output from default and scripted sources included; histories of the other functions' calls, a valid sentence allocated at the address of a just-rejected one (address reuse), generate-and-check from adjacent windows of one buffer under concurrency.",
         "Trusted: golden lists, reference encoder. Sampled entropy space; emphasis classes counted in the evidence.",
         "DESIGN.md section 5, C02"),
 "C03": ("exploration", "runtime monitoring: hostile validation workload judged by an independent reference validator (CPython NFKD, golden lists, SHA-256); accept-set size tallies per prefix",
         "For fixed prefixes all 2048 final words (accepted set must be exactly the reference's, size 2^(11-n/3)), all 2047 substitutions at every position, transpositions, count changes 0..30, other lists' words and sentences, case/affix/white-space damage, every list word with an affix, checksum-bit flips, byte fuzz incl. invalid UTF-8, a valid sentence next to one huge token (4 KiB..1 MiB, thorough 16 MiB), separators that bring a combining mark (every code point whose NFKD is space+marks), address reuse (a wrong-checksum sentence at the address of a just-accepted one), and in-process histories (a sentence accepted, then asked under other languages / spellings / with one word changed; fail-then-succeed pairs; cache-wrap repetitions): any accepted string must be reference-valid and IsMnemonicValid must equal (CheckMnemonic == nil).",
         "Only 'accepted => reference-valid' is asserted on arbitrary strings; 'reference-valid => accepted' only inside last-word sweeps. Trusted: CPython unicodedata, golden lists.",
         "DESIGN.md section 5, C03"),
 "C04": ("exploration", "runtime monitoring: per-call oracle = PBKDF2 written out over crypto/hmac with CPython's NFKD (independent of x/crypto and x/text); freshness observed by clobbering a second result and comparing backing arrays",
         "Seeds for empty/ASCII/valid/invalid mnemonics of all languages, lengths around and beyond the HMAC block (to 1 MiB), four normal forms, compatibility characters, reordering marks, leading marks, Hangul, random Unicode, every decomposing code point and combining mark once (thorough: every assigned code point), every byte length 0..300 special code points (U+FFFD, BOM, noncharacters) next to decomposable text, address reuse, and in-process histories (identical arguments, the same concatenation split elsewhere, the other functions' calls in between, cache-wrap repetitions) are compared with the reference; one case in eight observes freshness (two calls, clobber, two garbage collections, third call); the child wipes every seed it is given. Known finding D3 (inputs with > 30 consecutive non-starters) is listed by exact witness.",
         "Oracle domain: CPython-assigned code points, non-starter runs <= 25. Trusted: CPython unicodedata, crypto/hmac, crypto/sha512.",
         "DESIGN.md section 5, C04"),
 "C05": ("exploration", "runtime monitoring: independent bit-array decoder applied to every returned sentence; run-wide collision map; all single-bit flips of base entropies",
         "Each returned sentence of the C01 corpus is decoded by the reference decoder and must give back the entropy passed in; a (language, sentence)->entropy map detects collisions; for K base entropies per language x size every single-bit flip must change the sentence and decode to the flipped entropy.",
         "Trusted: golden lists, reference decoder. Sampled entropy space; all bit positions of each width are flipped.",
         "DESIGN.md section 5, C05"),
 "C06": ("fault_enumeration", "runtime monitoring with fault injection: scripted randomness source installed through the verif hook; source-side event log (every Read) compared with the call's result",
         "Every failure point k in 0..4n/3-1 for each n x 13 failure kinds (EOF, unexpected EOF, custom, EINTR, EAGAIN, PathError, Temporary/Timeout, deadline, ErrNoProgress, ErrShortBuffer, ErrClosedPipe, wrapped EOF; sticky) x {error alone, alongside the last bytes} plus plain end of data, each under several fragmentations, must give (\"\", non-nil error); successes under the same fragmentations must equal the reference encoding of the first 4n/3 delivered bytes with n words. Also: sources that stay installed over many calls and fail transiently (10 kinds incl. panics) or are handed over inside standard wrappers (bufio, MultiReader, LimitedReader, OneByteReader), slow sources during whose reads a garbage collection completes, and goroutines calling at the same time on one shared failing source (each call judged by its own goroutine's reads). The failure matrix must be complete or the run is inconclusive.",
         "The error-alongside-the-completing-read corner accepts either outcome. Trusted: the hook, the harness's scripted reader, reference encoder.",
         "DESIGN.md section 5, C06"),
 "C07": ("exploration", "runtime monitoring of fresh processes at three boundaries: identity of the pre-swap source (hook), interposition on crypto/rand.Reader before package init (with fault injection and, under the race detector, per-goroutine attribution of reads), strace of getrandom(2); plus duplicate/uniformity statistics",
         "In processes that swapped nothing the source must be crypto/rand.Reader itself; with the interposer every sentence must decode to exactly the bytes crypto/rand.Reader delivered during that call (also when reads are fragmented, when one read fails - then ("", error) is required - and when 4-16 goroutines call concurrently); un-hooked processes under strace must decode to getrandom buffers; no duplicate entropy across processes; monobit/chi-square sanity. The sentence must be the BIP39 encoding of the delivered bytes or what the tree's own NewMnemonicByEntropy makes of them in the same process; held mnemonics are re-read at the end of the process; bystander calls of the other functions and goroutines recycling caller-owned buffers run alongside; the interposer can fragment, fail, deliver zeros, collect garbage before each fragment, or panic.",
         "Trusted: Go package initialisation order (checked at run time: if the interposer is not captured the layer is reported inconclusive), strace visibility of getrandom with go1.23. Statistical thresholds have false-alarm probability < 1e-11.",
         "DESIGN.md section 5, C07"),
 "C08": ("exploration", "runtime monitoring over a finite domain enumerated completely: word emitted per (language, index) through the API vs frozen golden lists; validation verdicts on crafted sentences; parsed source literals",
         "All 10 x 2048 list entries are observed through NewMnemonicByEntropy (two positions), compared byte-for-byte with the golden lists, checked for distinctness/non-emptiness/no white space/NFKD stability; four accepting sentences, a one-word sentence and four neighbour-substituted sentences per word check the reverse map (a word is blamed only when the failures are explained by it); the lists are also read back through one caller-owned buffer holding all 2048 entropies, through a recycled buffer, after a history of failed validations, under GOMAXPROCS values that do not divide 2048, and under concurrency; internal/wordlist/*.go literals compared. exhaustive: true.",
         "Canonicity rests on the golden snapshot (extracted from the pinned commit; only the English digest could be tied to public knowledge offline).",
         "DESIGN.md section 5, C08"),
 "C09": ("exploration", "runtime monitoring: size/count sweeps with sentinel classification (errors.Is in the child) and byte counting at scripted and interposed sources",
         "nil and every entropy length 0..1024 (thorough 0..8192, to 16 MiB) and every word count in [-300,300] (thorough [-5000,5000]) plus int extremes and truncation-congruent values, each with working, failing and default sources: accepted sets must be exactly {16,20,24,28,32} and {12,15,18,21,24}; rejections must be (\"\", sentinel) and consume no randomness; also inside histories, on sources that stay installed and fail transiently, and under concurrency (a successful call returns the requested number of words).",
         "Trusted: errors.Is against the package's exported sentinels evaluated in the child; hook and interposer for byte counting.",
         "DESIGN.md section 5, C09"),
 "C10": ("exploration", "runtime monitoring: metamorphic oracle — pairs of spellings whose NFKD forms are equal according to CPython must get the same CheckMnemonic verdict",
         "Every list word of every language at every word count, in NFC/NFD/NFKC/NFKD/single-code-point pre-images (full-width, ligatures, precomposed, Hangul syllables, compatibility ideographs)/mixed, with U+0020, U+3000 and other space-like separators; near-miss sentences (wrong checksum, unknown word, a separator too many in every position); random Unicode strings with their normal forms; in-process histories (a spelling under one language, then another, each followed by its NFKD spelling; the other functions' calls in between; up to 2500 distinct spellings and then the same ones again). Coverage of all non-trivial (language, word, form) triples is required.",
         "Precondition decided by CPython (pairs failing it are skipped and counted). Domain: assigned code points, non-starter runs <= 25.",
         "DESIGN.md section 5, C10"),
 "C11": ("exploration", "runtime monitoring: metamorphic oracle — (mnemonic, passphrase) pairs with component-wise equal NFKD forms (CPython) must give identical seeds; baseline also compared with the reference seed",
         "Sentences containing every list word in every form, both separators (Japanese always), and passphrases/free-form mnemonics from the compatibility/combining generators in four normal forms and pre-image respellings, every decomposing code point and mark once, ASCII prefixes of every length, in-process histories. Known finding D3 listed by exact witness pairs.",
         "Same oracle domain as C04/C10.",
         "DESIGN.md section 5, C11"),
 "C12": ("exploration", "Go race detector (-race build of the child, reports read from log files) over cold-start processes, plus per-call reference oracle, exactly-once accounting of shared-source bytes, and sequential replay",
         "48 (thorough 1200) fresh processes with 2..64 goroutines released by one barrier, contended first uses of seed-chosen languages (simultaneous and staggered), a third preceded by a sequential history of failing calls, GOMAXPROCS 1..16; plus 8 (thorough 96) stress processes repeating a small shared pool of calls 120-4000 times; any race report with a frame of the package is a violation; every result must equal the reference and the sequential replay; overlap degrees are measured and a run without overlap is inconclusive.",
         "Trusted: the race detector's happens-before analysis; schedules are those the OS produces. Calibrated on nil-check, double-checked-locking and shared-scratch mutants.",
         "DESIGN.md section 5, C12"),
 "C13": ("exploration", "runtime monitoring of call histories in fresh processes: history-free reference model, solo re-execution of each call in its own fresh process, caller-owned buffer re-inspection, end-of-sequence re-read of retained results",
         "Every ordered pair of first-used languages (own process each) followed by probes on all languages, ten kinds of failing/unsupported first calls x ten languages, memo-hunting patterns, canary-filled spare capacity behind entropy slices, seeded random sequences of 100-300 calls over all functions/languages incl. failures, repeated inputs and reused entropy buffers, fail-then-succeed pairs, idle periods with forced collections, cache-wrap repetitions (20..2500 distinct calls, then again), one call repeated 70 000 times, sources that stay installed and fail or panic, retained error values re-read at the end, and a concurrent flavour with all functions mixed.",
         "NewMnemonic on the default source is checked for validity only. Calls on unsupported Language values are compared with their solo execution only.",
         "DESIGN.md section 5, C13"),
 "C14": ("exploration", "runtime monitoring for crashes and hangs: each hostile call is announced before it is made in a child process; recovered panics, process deaths, CPU-budget and memory watchdogs are attributed to the call in flight",
         "Every function/method x hostile Language values, all token counts, nil/short/huge entropy, int extremes for word counts with five kinds of source, a valid sentence frame with one hostile token of every length 1..130 runes, and string shapes up to 1 MiB (thorough 16 MiB): invalid UTF-8 of every shape, NUL, huge tokens, 10^6 tokens, long combining runs, U+FDFA, Hangul, unassigned code points, seeded splices; plus memo-hunting histories, runs of 1500 default-source calls with mixed sizes and of thousands of distinct ordinary calls of each function in one process, and a concurrent flavour.",
         "A hang is CPU > 10 s + 8 s/MiB of arguments (16x worst measured) or not returning when run alone; wall-clock alone never decides.",
         "DESIGN.md section 5, C14"),
 "C15": ("exploration", "runtime monitoring: single-defect sentences built by the parent; error class reported by the child via errors.Is; message checked for the unknown token",
         "Count-only, checksum-only (reference decoder says bad checksum; every wrong final word of sampled prefixes incl. zero-leading ones) and unknown-token sentences (unique markers at every position, foreign words, affixed/case-damaged, percent verbs, backticks, invalid UTF-8, tokens of 70..70000 bytes) over all languages x counts, plus in-process histories, must give ErrWordLen / ErrChecksumIncorrect / another non-nil error naming an unknown token.",
         "Sentences with several defects are only required to be rejected.",
         "DESIGN.md section 5, C15"),
 "C16": ("exploration", "runtime monitoring: Language.String() for dense ranges via digests computed in the child and compared with the expected names, bisected on mismatch; boundary and random int64 values individually",
         "The ten supported values (complete), every value in [-2^20,2^20] (thorough [-2^24,2^24]), integer-width boundaries, values congruent to supported ones modulo 2^8/2^16/2^32, log-uniform values, random values and windows, and 16 uninterrupted histories of 2^23 (thorough 2^26) random values each.",
         "Expected names are the declared identifiers of the constants.",
         "DESIGN.md section 5, C16"),
 "C17": ("exploration", "runtime monitoring of the generator tool: built with the verif fetch-redirect hook, run against a loopback HTTP server operated by the parent; outputs parsed, type-checked, compared with the inputs; scratch rebuild of the repository observed through the API",
         "Canonical lists, a run with every assigned combining mark at either end of a word and every assigned letter, and seeded inputs (0..5000 words, scripts of the BIP39 lists and others, leading/doubled/non-canonical marks, Go keywords, long words, blank lines in every position, with/without trailing newline) for all ten targets per run; request log checked; runs with ten 2048-word inputs are rebuilt and each language must emit the words served under its file name (with a harness-written control package); fault runs cut the first download of some files inside the body: a tool that reports success must still have written faithful files.",
         "Characters outside the property's domain (quotes, <, &, backslash, CR) are not generated. Loopback HTTP is available in the sandbox.",
         "DESIGN.md section 5, C17"),
}

NOT_YET = {}

def main():
    props = [json.loads(l) for l in open("properties.jsonl")]
    checks = []
    na = []
    for p in props:
        pid = p["id"]
        if pid in CHECKS:
            cat, tech, text, note, ref = CHECKS[pid]
            checks.append({
                "property_id": pid,
                "quick_cmd": "./run.sh check %s quick" % pid,
                "thorough_cmd": "./run.sh check %s thorough" % pid,
                "evidence_file": "/verif/evidence/%s.json" % pid,
                "replay_cmd_template": "./run.sh replay {path}",
                "engine": "harness",
                "level_claimed": {"category": cat, "text": text, "design_ref": ref},
                "level_note": note,
                "technique": tech,
            })
        else:
            na.append({"property_id": pid, "reason": NOT_YET.get(pid, "check under construction in this session; not claimed until its monitor is committed")})
    m = {
        "version": 1,
        "setup_cmd": "./run.sh setup",
        "hooks": {
            "guard": "verif",
            "enable": "go build -tags verif (the harness module /verif/harness replaces github.com/islishude/bip39 by /repo and builds cmd/drv with -tags verif; update-wordlist is built with -tags verif for C17)",
            "baseline_off_cmd": "cd /repo && go test -mod=mod -json -vet=off -count=1 -timeout 25m ./...",
            "source_commits": HOOK_COMMITS,
            "add_only": True,
        },
        "engines": [{
            "name": "harness",
            "path": "/verif/harness",
            "serves_properties": [c["property_id"] for c in checks],
            "kind_free_text": "runtime monitoring: parent process (generators, independent reference model, monitors, evidence) drives child processes that link /repo's working tree with -tags verif and log every call; Go race detector for C12; CPython unicodedata co-process as independent NFKD oracle",
        }],
        "checks": checks,
        "not_applicable": na,
        "notes": "Exit 0 = held on everything explored, 1 = VIOLATION line + replay file, 2 = could not observe (never a verdict). Known findings: /verif/KNOWN_FINDINGS.txt. See DESIGN.md.",
    }
    json.dump(m, open("MANIFEST.json", "w"), indent=1)
    open("MANIFEST.json", "a").write("\n")

main()
