#!/bin/sh
# Runs every calibration mutant against its target check(s) (quick tier) and prints one line each.
# usage: tools/mutant-matrix.sh [pattern]
cd "$(dirname "$0")/.."
for m in mutants/${1:-*}.diff; do
	b=$(basename "$m" .diff)
	id=$(echo "$b" | cut -c1-3 | tr c C)
	extra=""
	case "$b" in
	ok-over-read) id="C01"; extra="C07 C09 C12 C14" ;; # conforms to everything but C06's first clause on sources that end after exactly 4n/3 bytes
	ok-*) id="C01"; extra="C02 C03 C04 C06 C07 C09 C10 C11 C12 C13 C14 C15" ;;
	c02-*) extra="C03 C15" ;;
	c03-*) extra="C15" ;;
	c04-shared-seed-buffer) extra="C13" ;;
	c04-nfkc|c04-passphrase-not-normalised|c04-nfd-passphrase|c04-normalise-if-u3000) extra="C11" ;;
	c10-*) extra="C03" ;;
	c01-*) extra="C05 C02" ;;
	c05-*) extra="C01" ;;
	c12-shared-scratch-bigint) extra="C13" ;;
	c14-revert-stringer-guard) extra="C16" ;;
	esac
	timeout 1800 tools/mutant.sh "$m" quick $id $extra 2>&1 | grep '^MUTANT' | cut -c1-260
done
