#!/bin/sh
# validates MANIFEST.json and every evidence file against the given schemas
cd "$(dirname "$0")/.."
python3-vt - <<'PY'
import json, jsonschema, glob
jsonschema.validate(json.load(open('MANIFEST.json')), json.load(open('/root/.vp/MANIFEST.schema.json')))
es = json.load(open('/root/.vp/EVIDENCE.schema.json'))
for f in sorted(glob.glob('evidence/*.json')):
    jsonschema.validate(json.load(open(f)), es)
    print('valid', f)
print('manifest valid')
PY
