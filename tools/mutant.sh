#!/bin/sh
# usage: tools/mutant.sh <patch.diff> <tier> <check id>...
# Applies a patch to a scratch worktree of /repo (outside /repo and /verif), confirms it builds and
# passes the repository's own tests, runs the given checks against it and removes the worktree.
set -u
HERE="$(cd "$(dirname "$0")/.." && pwd)"
PATCH="$(readlink -f "$1")"; TIER="$2"; shift 2
export GOFLAGS=-mod=mod GOPROXY=off GOSUMDB=off GOTOOLCHAIN=local
W="$(mktemp -d /tmp/mutant-XXXXXX)"; rmdir "$W"
git -C /repo worktree add -q --detach "$W" HEAD || exit 2
trap 'git -C /repo worktree remove --force "$W" >/dev/null 2>&1; git -C /repo worktree prune; rm -rf "$HERE/replays"' EXIT
if ! git -C "$W" apply "$PATCH"; then echo "MUTANT $(basename "$PATCH"): patch does not apply"; exit 2; fi
if ! (cd "$W" && go build ./... && go test -vet=off -count=1 ./... >/dev/null 2>&1); then echo "MUTANT $(basename "$PATCH"): does not build or fails the repository tests"; exit 2; fi
for id in "$@"; do
	out="$(VERIF_REPO="$W" timeout 900 $HERE/run.sh check "$id" "$TIER" 2>&1)"; rc=$?
	n=$(printf '%s\n' "$out" | grep -c '^VIOLATION')
	first=$(printf '%s\n' "$out" | grep -A1 '^VIOLATION' | sed -n 2p | cut -c1-220)
	echo "MUTANT $(basename "$PATCH") check=$id tier=$TIER exit=$rc violations=$n :: $first"
	[ $rc -eq 2 ] && printf '%s\n' "$out" | tail -3
done
