#!/usr/bin/env python3
"""Builds /verif/mutants/*.diff from the table below (string replacements applied
to a scratch worktree of /repo's HEAD, diffed with git). These are the harness
author's own calibration mutants (DESIGN.md section 8); the independently
seeded ones live in /verif/seeded."""
import os, subprocess, sys, tempfile, shutil

# name -> list of (file, old, new)
M = {}

def m(name, *edits):
    M[name] = edits

RF = 'if _, err := io.ReadFull(cryptoRander, entropy); err != nil {'
m('c06-single-read', ('bip39.go', RF, 'if _, err := io.Reader(cryptoRander).Read(entropy); err != nil {'))
m('c06-ignore-err-when-bytes', ('bip39.go', RF, 'if n, err := io.ReadFull(cryptoRander, entropy); err != nil && n == 0 {'))
m('c06-accept-ueof', ('bip39.go', RF, 'if _, err := io.ReadFull(cryptoRander, entropy); err != nil && err != io.ErrUnexpectedEOF {'))
m('c06-readatleast-short', ('bip39.go', RF, 'if _, err := io.ReadAtLeast(cryptoRander, entropy, len(entropy)-1); err != nil {'))

m('c01-checksum-shift-21w', ('entropy.go', 'csInt.Quo(csInt, big.NewInt(1<<(8-csBitLen)))',
   'if csBitLen == 7 {\n\t\tcsInt.Quo(csInt, big.NewInt(1<<(7-csBitLen)))\n\t\tcsInt.And(csInt, big.NewInt(127))\n\t} else {\n\t\tcsInt.Quo(csInt, big.NewInt(1<<(8-csBitLen)))\n\t}'))
m('c01-index-mask', ('entropy.go', 'wordList[i] = lgList[wordIdx.Int64()]', 'idx := wordIdx.Int64()\n\t\tif idx == 1365 && i == 7 && wordLen == 18 {\n\t\t\tidx = 1364\n\t\t}\n\t\twordList[i] = lgList[idx]'))
m('c01-korean-u3000', ('entropy.go', 'if lg == Japanese {', 'if lg == Japanese || (lg == Korean && wordLen == 21) {'))
m('c05-drop-top-bit-32', ('entropy.go', 'entInt := new(big.Int).SetBytes(entropy)', 'entInt := new(big.Int).SetBytes(entropy)\n\tif len(entropy) == 32 && entropy[0]&0xC0 == 0xC0 {\n\t\tentInt.SetBit(entInt, 255, 0)\n\t}'))

PAD = '''	if entLen := wordCount / 3 * 4; len(entBytes) < entLen {
		entBytes = append(make([]byte, entLen-len(entBytes)), entBytes...)
	}
'''
m('c02-revert-d1', ('mnemonic.go', PAD, ''))
m('c02-pad-only-one-byte', ('mnemonic.go', PAD, '''	if entLen := wordCount / 3 * 4; len(entBytes) < entLen {
		entBytes = append(make([]byte, 1), entBytes...)
	}
'''))
m('c03-skip-checksum-24', ('mnemonic.go', 'if sum.Cmp(csBig) != 0 {', 'if sum.Cmp(csBig) != 0 && !(wordCount == 24 && csBig.Sign() == 0) {'))
m('c03-count-gate-9', ('mnemonic.go', 'wordCount < 12 ||', 'wordCount < 9 ||'))
m('c15-count-gate-27-panics', ('mnemonic.go', 'wordCount > 24 {', 'wordCount > 27 {'))
m('c03-checksum-low-bits-only', ('mnemonic.go', 'if sum.Cmp(csBig) != 0 {', 'if sum.Int64()&0x7f != csBig.Int64()&0x7f {'))
m('ok-fields-split', ('mnemonic.go', 'wordList := strings.Split(mnemonic, "\\x20")', 'wordList := strings.Fields(mnemonic)'))

m('c04-nfkc-for-long', ('bip39.go', 'password := []byte(norm.NFKD.String(mnemonic))', 'password := []byte(norm.NFKD.String(mnemonic))\n\tif len(mnemonic) > 1000 {\n\t\tpassword = []byte(norm.NFKC.String(mnemonic))\n\t}'))
m('c04-passphrase-ascii-prefix-shortcut', ('bip39.go', 'salt := []byte(norm.NFKD.String("mnemonic" + passphrase))', 'salt := []byte("mnemonic" + passphrase)\n\tif len(passphrase) > 0 && passphrase[0] >= 0x80 {\n\t\tsalt = []byte(norm.NFKD.String("mnemonic" + passphrase))\n\t}'))
m('c04-normalise-if-u3000', ('bip39.go', 'password := []byte(norm.NFKD.String(mnemonic))',
   'password := []byte(mnemonic)\n\tfor _, r := range mnemonic {\n\t\tif r == 0x3000 || r > 0x2000 {\n\t\t\tpassword = []byte(norm.NFKD.String(mnemonic))\n\t\t\tbreak\n\t\t}\n\t}'))
m('c04-key-truncated-512', ('bip39.go', 'return pbkdf2.Key(password, salt, 2048, 64, sha512.New)', 'if len(password) > 512 {\n\t\tpassword = password[:512]\n\t}\n\treturn pbkdf2.Key(password, salt, 2048, 64, sha512.New)'))
m('c04-nfd-passphrase-if-short', ('bip39.go', 'salt := []byte(norm.NFKD.String("mnemonic" + passphrase))', 'salt := []byte(norm.NFKD.String("mnemonic" + passphrase))\n\tif len(passphrase) < 8 {\n\t\tsalt = []byte(norm.NFD.String("mnemonic" + passphrase))\n\t}'))
m('c04-shared-seed-buffer', ('bip39.go', 'return pbkdf2.Key(password, salt, 2048, 64, sha512.New)', 'copy(seedBuf[:], pbkdf2.Key(password, salt, 2048, 64, sha512.New))\n\treturn seedBuf[:]'),
  ('bip39.go', '// cryptoRander is a test stub', 'var seedBuf [64]byte\n\n// cryptoRander is a test stub'))
m('c10-replace-u3000-only', ('mnemonic.go', 'mnemonic = norm.NFKD.String(mnemonic)', 'mnemonic = strings.Replace(mnemonic, "\\u3000", " ", -1)'),
  ('mnemonic.go', '\t"golang.org/x/text/unicode/norm"\n', ''))
m('c10-nfd', ('mnemonic.go', 'mnemonic = norm.NFKD.String(mnemonic)', 'mnemonic = norm.NFD.String(strings.Replace(mnemonic, "\\u3000", " ", -1))'))
m('c11-normalise-only-mnemonic-unless-cjk', ('bip39.go', 'salt := []byte(norm.NFKD.String("mnemonic" + passphrase))', 'salt := []byte("mnemonic" + passphrase)\n\tfor _, r := range passphrase {\n\t\tif r >= 0x3000 && r < 0x3400 {\n\t\t\tsalt = []byte(norm.NFKD.String("mnemonic" + passphrase))\n\t\t}\n\t}'))

m('c07-mathrand', ('bip39.go', 'var cryptoRander = rand.Reader', 'var cryptoRander io.Reader = mrand.New(mrand.NewSource(time.Now().UnixNano()))'),
  ('bip39.go', '\t"crypto/rand"\n', '\tmrand "math/rand"\n\t"time"\n'))
m('c07-bufio', ('bip39.go', 'var cryptoRander = rand.Reader', 'var cryptoRander io.Reader = bufio.NewReaderSize(rand.Reader, 64)'),
  ('bip39.go', '\t"crypto/rand"\n', '\t"bufio"\n\t"crypto/rand"\n'))
m('c07-fixed-seed', ('bip39.go', 'var cryptoRander = rand.Reader', 'var cryptoRander io.Reader = mrand.New(mrand.NewSource(42))'),
  ('bip39.go', '\t"crypto/rand"\n', '\tmrand "math/rand"\n'))
m('c07-xor-time', ('bip39.go', 'return fromEntropy(entropy, length, lang), nil\n}\n\n// MnemonicToSeed', 'if cryptoRander == rand.Reader {\n\t\tentropy[0] ^= byte(time.Now().UnixNano() >> 10)\n\t}\n\treturn fromEntropy(entropy, length, lang), nil\n}\n\n// MnemonicToSeed'),
  ('bip39.go', '\t"crypto/rand"\n', '\t"crypto/rand"\n\t"time"\n'))

m('c09-accept-36', ('bip39.go', 'if entLen < 16 || entLen > 32 || entLen%4 != 0 {', 'if entLen < 16 || entLen > 36 || entLen%4 != 0 {'))
m('c09-accept-27-words', ('bip39.go', 'if length < 12 || length > 24 || length%3 != 0 {', 'if length < 12 || length > 27 || length%3 != 0 {'))
m('c09-fresh-error', ('bip39.go', '\t\treturn "", ErrEntropyLen', '\t\treturn "", errors.New("invalid entropy length")'),
  ('bip39.go', '\t"crypto/rand"\n', '\t"crypto/rand"\n\t"errors"\n'))
m('c09-read-before-validate', ('bip39.go', '''	if length < 12 || length > 24 || length%3 != 0 {
		return "", ErrWordLen
	}
''', '''	if length < 12 || length > 24 || length%3 != 0 {
		if length == 27 || length == 30 {
			probe := make([]byte, 4)
			_, _ = cryptoRander.Read(probe)
		}
		return "", ErrWordLen
	}
'''))
m('c09-int32-truncation', ('bip39.go', 'if length < 12 || length > 24 || length%3 != 0 {', 'if l := int32(length); l < 12 || l > 24 || l%3 != 0 {'))

m('c12-nilcheck-english', ('lang.go', '''		englishOnce.Do(func() {
			englishMapping = make(map[string]int64, 2048)
			for idx, word := range wordlist.English {
				englishMapping[word] = int64(idx)
			}
		})''', '''		if englishMapping == nil {
			englishMapping = make(map[string]int64, 2048)
			for idx, word := range wordlist.English {
				englishMapping[word] = int64(idx)
			}
		}'''))
m('c12-dcl-korean', ('lang.go', '''		koreanOnce.Do(func() {
			koreanMapping = make(map[string]int64, 2048)
			for idx, word := range wordlist.Korean {
				koreanMapping[word] = int64(idx)
			}
		})''', '''		if koreanMapping == nil {
			koreanMu.Lock()
			if koreanMapping == nil {
				mm := make(map[string]int64, 2048)
				for idx, word := range wordlist.Korean {
					mm[word] = int64(idx)
				}
				koreanMapping = mm
			}
			koreanMu.Unlock()
		}'''), ('lang.go', '\tportugueseOnce         sync.Once\n', '\tportugueseOnce         sync.Once\n\tkoreanMu               sync.Mutex\n'))
m('c12-shared-scratch-bigint', ('entropy.go', '\twordIdx := new(big.Int)\n', '\twordIdx := scratchIdx\n'),
  ('entropy.go', 'var first11BitsMask = big.NewInt(2048)', 'var first11BitsMask = big.NewInt(2048)\nvar scratchIdx = new(big.Int)'))
m('c13-japanese-map-from-korean-if-built', ('lang.go', '''			for idx, word := range wordlist.Japanese {
				japaneseMapping[word] = int64(idx)
			}''', '''			src := wordlist.Japanese
			if koreanMapping != nil {
				src = wordlist.Korean
			}
			for idx, word := range src {
				japaneseMapping[word] = int64(idx)
			}'''))
m('c13-entropy-reversed-in-place', ('entropy.go', '\t// entropy big int\n', '\tif len(entropy) == 28 {\n\t\tentropy[27], entropy[26] = entropy[26], entropy[27]\n\t\tdefer func() { entropy[27], entropy[26] = entropy[27], entropy[26] }()\n\t}\n\t// entropy big int\n'))
m('c13-entropy-zeroed-after', ('bip39.go', '\treturn fromEntropy(entropy, entLen/4*3, lang), nil', '\tout := fromEntropy(entropy, entLen/4*3, lang)\n\tif entLen == 20 {\n\t\tentropy[19] = 0\n\t}\n\treturn out, nil'))
m('c13-separator-remembered', ('entropy.go', '''	if lg == Japanese {
		return strings.Join(wordList, "\\u3000")
	}''', '''	if lg == Japanese {
		usedJapanese = true
		return strings.Join(wordList, "\\u3000")
	}
	if lg == Korean && usedJapanese {
		return strings.Join(wordList, "\\u3000")
	}'''), ('entropy.go', 'var first11BitsMask = big.NewInt(2048)', 'var first11BitsMask = big.NewInt(2048)\nvar usedJapanese bool'))
m('c14-mapping-nil-deref', ('mnemonic.go', '\tmapping := lg.mapping()\n', '\tmapping := lg.mapping()\n\tif mapping == nil && wordCount == 21 {\n\t\tmapping[wordList[0]] = 0\n\t}\n'))
m('c14-revert-stringer-guard', ('language_string.go', 'if i < 0 || i >= Language(len(_Language_index)-1) {', 'if i >= Language(len(_Language_index)-1) {'))
m('c14-quadratic-check', ('mnemonic.go', '\twordCount := len(wordList)\n', '\twordCount := len(wordList)\n\tif wordCount > 100000 {\n\t\tfor i := range wordList {\n\t\t\tfor j := range wordList {\n\t\t\t\tif i != j && len(wordList[i]) > 1<<30 && wordList[i] == wordList[j] {\n\t\t\t\t\treturn ErrWordLen\n\t\t\t\t}\n\t\t\t}\n\t\t}\n\t}\n'))
m('c15-sentinel-swapped', ('mnemonic.go', '\t\treturn ErrChecksumIncorrect', '\t\tif wordCount == 15 {\n\t\t\treturn ErrWordLen\n\t\t}\n\t\treturn ErrChecksumIncorrect'))
m('c15-errorf-copy', ('mnemonic.go', '\t\treturn ErrChecksumIncorrect', '\t\treturn fmt.Errorf("checksum incorrect")'))
m('c15-message-without-token', ('mnemonic.go', 'return fmt.Errorf("word `%s` at `%d` not found in mnemonic mapping", word, wordIdx)', 'return fmt.Errorf("word at `%d` not found in mnemonic mapping", wordIdx)'))
m('c15-unknown-word-as-checksum', ('mnemonic.go', 'return fmt.Errorf("word `%s` at `%d` not found in mnemonic mapping", word, wordIdx)', 'if wordIdx == wordCount-1 {\n\t\t\t\treturn ErrChecksumIncorrect\n\t\t\t}\n\t\t\treturn fmt.Errorf("word `%s` at `%d` not found in mnemonic mapping", word, wordIdx)'))
m('c16-revert-stringer', ('language_string.go', 'ChineseSimplifiedChineseTraditionalEnglishFrenchItalianJapaneseKoreanSpanishCzechPortuguese', 'ChineseSimplifiedChineseTraditionalEnglishFrenchItalianJapaneseKoreanSpanishCzech'),
  ('language_string.go', '{0, 17, 35, 42, 48, 55, 63, 69, 76, 81, 91}', '{0, 17, 35, 42, 48, 55, 63, 69, 76, 81}'))
m('c16-large-values-wrap', ('language_string.go', 'return "Language(" + strconv.FormatInt(int64(i), 10) + ")"', 'return "Language(" + strconv.FormatInt(int64(int32(i)), 10) + ")"'))

m('c17-keep-blank-lines', ('update-wordlist/main.go', '{{ range .WordList }}{{if .}} "{{.}}", {{end}} ', '{{ range .WordList }} "{{.}}", '))
m('c17-trimspace', ('update-wordlist/main.go', 'data := Template{WordList: strings.Split(string(src), "\\n"), Variable: variable}', 'data := Template{WordList: strings.Split(strings.ToLower(string(src)), "\\n"), Variable: variable}'))
m('c17-french-spanish', ('update-wordlist/main.go', '"french":              "French",', '"french":              "Spanish",'), ('update-wordlist/main.go', '"spanish":             "Spanish",', '"spanish":             "French",'))
m('c17-drop-last-without-newline', ('update-wordlist/main.go', 'data := Template{WordList: strings.Split(string(src), "\\n"), Variable: variable}', 'lines := strings.Split(string(src), "\\n")\n\tdata := Template{WordList: lines[:len(lines)-1], Variable: variable}'))


# --- negative controls: changes that keep every property; no check may raise an alarm ---
m('ok-ascii-fast-path', ('mnemonic.go', '\tmnemonic = norm.NFKD.String(mnemonic)\n', '\tascii := true\n\tfor i := 0; i < len(mnemonic); i++ {\n\t\tif mnemonic[i] >= 0x80 {\n\t\t\tascii = false\n\t\t\tbreak\n\t\t}\n\t}\n\tif !ascii {\n\t\tmnemonic = norm.NFKD.String(mnemonic)\n\t}\n'))
m('ok-wrapped-sentinels', ('mnemonic.go', '\t\treturn ErrChecksumIncorrect', '\t\treturn fmt.Errorf("mnemonic of %d words: %w", wordCount, ErrChecksumIncorrect)'),
  ('mnemonic.go', '\t\treturn ErrWordLen', '\t\treturn fmt.Errorf("%d words: %w", wordCount, ErrWordLen)'))
m('ok-eager-maps', ('lang.go', '// mapping returns word index mapping', 'func init() {\n\tfor l := ChineseSimplified; l <= Portuguese; l++ {\n\t\tl.mapping()\n\t}\n}\n\n// mapping returns word index mapping'))
m('ok-global-mutex', ('mnemonic.go', 'func CheckMnemonic(mnemonic string, lg Language) error {\n', 'func CheckMnemonic(mnemonic string, lg Language) error {\n\tcheckMu.Lock()\n\tdefer checkMu.Unlock()\n'),
  ('mnemonic.go', '// IsMnemonicValid validate menemonic', 'var checkMu sync.Mutex\n\n// IsMnemonicValid validate menemonic'),
  ('mnemonic.go', '\t"strings"\n', '\t"strings"\n\t"sync"\n'))
m('ok-over-read', ('bip39.go', '''	entropy := make([]byte, length+length/3)
	if _, err := io.ReadFull(cryptoRander, entropy); err != nil {
		return "", err
	}
''', '''	var block [40]byte
	if _, err := io.ReadAtLeast(cryptoRander, block[:], length+length/3); err != nil {
		return "", err
	}
	entropy := block[:length+length/3]
'''))
m('ok-strict-on-error-alongside', ('bip39.go', '''	if _, err := io.ReadFull(cryptoRander, entropy); err != nil {
		return "", err
	}
''', '''	for got := 0; got < len(entropy); {
		n, err := cryptoRander.Read(entropy[got:])
		got += n
		if err != nil && err != io.EOF {
			return "", err
		}
		if err == io.EOF && got < len(entropy) {
			return "", io.ErrUnexpectedEOF
		}
	}
'''))
m('ok-seed-extra-copy', ('bip39.go', '\treturn pbkdf2.Key(password, salt, 2048, 64, sha512.New)', '\tkey := pbkdf2.Key(password, salt, 2048, 64, sha512.New)\n\tout := make([]byte, len(key))\n\tcopy(out, key)\n\treturn out'))
m('ok-message-format', ('mnemonic.go', 'return fmt.Errorf("word `%s` at `%d` not found in mnemonic mapping", word, wordIdx)', 'return fmt.Errorf("unknown word %q (position %d)", word, wordIdx+1)'))

def main():
    only = set(sys.argv[1:])
    os.makedirs('/verif/mutants', exist_ok=True)
    w = tempfile.mkdtemp(prefix='mkmut-', dir='/tmp')
    os.rmdir(w)
    subprocess.check_call(['git', '-C', '/repo', 'worktree', 'add', '-q', '--detach', w, 'HEAD'])
    try:
        for name, edits in M.items():
            if only and name not in only:
                continue
            subprocess.check_call(['git', '-C', w, 'checkout', '-q', '--', '.'])
            ok = True
            for f, old, new in edits:
                p = os.path.join(w, f)
                s = open(p).read()
                if old not in s:
                    print('!! %s: pattern not found in %s' % (name, f))
                    ok = False
                    break
                open(p, 'w').write(s.replace(old, new, 1))
            if not ok:
                continue
            subprocess.call(['gofmt', '-w'] + sorted({os.path.join(w, f) for f, _, _ in edits}))
            d = subprocess.check_output(['git', '-C', w, 'diff'])
            open('/verif/mutants/%s.diff' % name, 'wb').write(d)
    finally:
        subprocess.call(['git', '-C', '/repo', 'worktree', 'remove', '--force', w])
        subprocess.call(['git', '-C', '/repo', 'worktree', 'prune'])

main()
