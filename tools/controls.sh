#!/bin/sh
# Negative controls written by independent sub-agents (controls/*/patch.diff): behaviour-preserving
# rewrites of parts of the library or of the tool. Every check must stay silent on them (exit 0).
# usage: tools/controls.sh [glob over controls/] ["check ids"]
set -u
HERE="$(cd "$(dirname "$0")/.." && pwd)"
export GOFLAGS=-mod=mod GOPROXY=off GOSUMDB=off GOTOOLCHAIN=local
for d in "$HERE"/controls/${1:-*}/; do
	n=$(basename "$d")
	W="$(mktemp -d /tmp/ctl-XXXXXX)"; rmdir "$W"
	git -C /repo worktree add -q --detach "$W" HEAD || continue
	if git -C "$W" apply "$d/patch.diff" 2>/dev/null && (cd "$W" && go build ./... && go test -vet=off -count=1 ./... >/dev/null 2>&1); then
		for id in ${2:-C01 C02 C03 C04 C05 C06 C07 C08 C09 C10 C11 C12 C13 C14 C15 C16 C17}; do
			out="$(VERIF_REPO="$W" timeout 1500 "$HERE/run.sh" check "$id" quick 2>&1)"; rc=$?
			first=$(printf '%s\n' "$out" | grep -A1 '^VIOLATION' | sed -n 2p | cut -c1-300)
			[ $rc -eq 2 ] && first=$(printf '%s\n' "$out" | grep INCONCLUSIVE | head -1 | cut -c1-300)
			echo "CONTROL $n check=$id exit=$rc :: $first"
		done
	else
		echo "CONTROL $n: patch does not apply or the suite fails with it"
	fi
	git -C /repo worktree remove --force "$W" >/dev/null 2>&1; git -C /repo worktree prune
	rm -rf "$HERE/replays"
done
