#!/bin/sh
# Re-runs every calibration mutant and every seeded change against its target check(s), quick tier.
# Prints one line per (change, check); a line with violations=0 is a miss.
# usage: tools/regression.sh [glob over seeded/]   (with a glob the calibration mutants are skipped)
cd "$(dirname "$0")/.."
[ $# -eq 0 ] && tools/mutant-matrix.sh 2>&1 | grep '^MUTANT'
for d in seeded/${1:-*}/; do
	n=$(basename "$d"); id=$(echo "$n" | cut -c1-3)
	extra=""
	[ "$n" = "C07-r2" ] && extra="C12"
	[ "$n" = "C15-r22" ] && { id="C12"; extra=""; } # statistical for C15 and C03, deterministic for the race detector (DESIGN 10.4, round 22)
	[ "$n" = "C05-r23" ] && { id="C06"; extra=""; } # C05 is about NewMnemonicByEntropy; the change is in NewMnemonic (C06)
	[ "$n" = "C08-r24" ] && { id="C12"; extra="C01"; } # the checksum under concurrency, not the lists (DESIGN 10.4, round 24)
	[ "$n" = "C06-r28" ] && extra="" # not reported by design: the class of negative control neg-N5 (DESIGN 10.4, round 28)
	[ "$n" = "C08-r16" ] && { id="C02"; extra="C03"; } # left to C02/C03 by design (DESIGN 10.4, round 16)
	tools/seeded-verify.sh "$d" quick $id $extra 2>&1 | grep '^SEEDED' | cut -c1-240
done
