#!/bin/sh
# For every seeded change (or those matching $1) run ALL checks (quick) against it and print one line
# per (change, check). Used to audit cross-property alarms: a check should alarm only when ITS property
# is violated by the change. Optional: $1 = glob over seeded/ names, $2 = space-separated check ids.
set -u
HERE="$(cd "$(dirname "$0")/.." && pwd)"
export GOFLAGS=-mod=mod GOPROXY=off GOSUMDB=off GOTOOLCHAIN=local
for d in "$HERE"/seeded/${1:-*}/; do
	n=$(basename "$d")
	W="$(mktemp -d /tmp/cross-XXXXXX)"; rmdir "$W"
	git -C /repo worktree add -q --detach "$W" HEAD || continue
	if git -C "$W" apply "$d/patch.diff" 2>/dev/null; then
		for id in ${2:-C01 C02 C03 C04 C05 C06 C07 C08 C09 C10 C11 C12 C13 C14 C15 C16 C17}; do
			out="$(VERIF_REPO="$W" timeout 1500 "$HERE/run.sh" check "$id" quick 2>&1)"; rc=$?
			first=$(printf '%s\n' "$out" | grep -A1 '^VIOLATION' | sed -n 2p | cut -c1-200)
			[ $rc -eq 2 ] && first=$(printf '%s\n' "$out" | grep INCONCLUSIVE | head -1 | cut -c1-200)
			echo "CROSS $n check=$id exit=$rc :: $first"
		done
	fi
	git -C /repo worktree remove --force "$W" >/dev/null 2>&1; git -C /repo worktree prune
	rm -rf "$HERE/replays"
done
