#!/bin/sh
# usage: tools/seeded-verify.sh <dir with patch.diff + demo_test.go|demo.sh> <tier> <check id>...
# Confirms an independently seeded change in a fresh scratch worktree of /repo (outside /repo and
# /verif): the patch applies, the repository's own suite still passes with it, the demonstration
# passes without the change and fails with it; then runs the given checks against the changed tree.
# The worktree and its build output are removed at the end.
set -u
HERE="$(cd "$(dirname "$0")/.." && pwd)"
D="$(readlink -f "$1")"; TIER="$2"; shift 2
export GOFLAGS=-mod=mod GOPROXY=off GOSUMDB=off GOTOOLCHAIN=local
W="$(mktemp -d /tmp/seedv-XXXXXX)"; rmdir "$W"
git -C /repo worktree add -q --detach "$W" HEAD || exit 2
trap 'git -C /repo worktree remove --force "$W" >/dev/null 2>&1; git -C /repo worktree prune; rm -rf "$HERE/replays"' EXIT
name="$(basename "$D")"
RACE=""
case "$name" in C12*) RACE="-race" ;; esac
demo() { # runs the demonstration in $W; exit status 0 = demo passes
	if [ -f "$D/demo_test.go" ]; then
		cp "$D/demo_test.go" "$W/zz_seed_demo_test.go"
		(cd "$W" && timeout 600 go test $RACE -vet=off -count=1 -run '^TestSeedDemo$' . >"$W.demo.log" 2>&1); rc=$?
		rm -f "$W/zz_seed_demo_test.go"
		return $rc
	else
		# the script locates the tree as its parent directory: run it from a copy inside the worktree
		rm -rf "$W/SEED"; cp -r "$D" "$W/SEED"
		(cd "$W" && timeout 600 sh "$W/SEED/demo.sh" >"$W.demo.log" 2>&1); rc=$?
		rm -rf "$W/SEED"
		return $rc
	fi
}
demo; base=$?
if ! git -C "$W" apply "$D/patch.diff"; then echo "SEEDED $name: patch does not apply"; exit 2; fi
(cd "$W" && go build ./... && go test -vet=off -count=1 ./... >"$W.suite.log" 2>&1); suite=$?
demo; with=$?
rm -f "$W.demo.log" "$W.suite.log"
echo "SEEDED $name: demo-without-change=$([ $base -eq 0 ] && echo pass || echo FAIL) suite-with-change=$([ $suite -eq 0 ] && echo pass || echo FAIL) demo-with-change=$([ $with -ne 0 ] && echo fails-as-intended || echo PASSES)"
[ $base -eq 0 ] && [ $suite -eq 0 ] && [ $with -ne 0 ] || { echo "SEEDED $name: NOT CONFIRMED"; exit 3; }
for id in "$@"; do
	out="$(VERIF_REPO="$W" timeout 1800 "${VERIF_RUN:-$HERE/run.sh}" check "$id" "$TIER" 2>&1)"; rc=$?
	n=$(printf '%s\n' "$out" | grep -c '^VIOLATION')
	first=$(printf '%s\n' "$out" | grep -A1 '^VIOLATION' | sed -n 2p | cut -c1-260)
	echo "SEEDED $name check=$id tier=$TIER exit=$rc violations=$n :: $first"
	[ $rc -eq 2 ] && printf '%s\n' "$out" | tail -3
done
exit 0
