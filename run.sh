#!/bin/sh
# Entry point of the verification machinery.
#   ./run.sh setup                      build everything once, offline (MANIFEST.setup_cmd)
#   ./run.sh check <ID> [quick|thorough] run one property's monitors against /repo's working tree
#   ./run.sh replay <file>              re-execute the calls of a replay file
# Environment: VERIF_SEED (default 1), VERIF_TIER, VERIF_REPO (monitor another tree; used for mutants).
# Exit: 0 held on everything explored; 1 + "VIOLATION property=<id> replay=<path>"; 2 could not observe.
set -u
VERIF_DIR="$(cd "$(dirname "$0")" && pwd)"
export VERIF_DIR
export GOFLAGS=-mod=mod GOPROXY=off GOSUMDB=off GOTOOLCHAIN=local
mkdir -p "$VERIF_DIR/bin" "$VERIF_DIR/evidence"
build() {
	(cd "$VERIF_DIR/harness" && go build -o "$VERIF_DIR/bin/verif" ./cmd/verif) || { echo "INCONCLUSIVE: cannot build the harness" >&2; exit 2; }
}
case "${1:-}" in
setup)
	build
	"$VERIF_DIR/bin/verif" selftest || exit 2
	;;
check | replay)
	build
	# per-run scratch directory (children, builds of drv, race logs); removed whatever happens to the parent
	VERIF_SCRATCH="$(mktemp -d "${TMPDIR:-/tmp}/verif-XXXXXX")" || exit 2
	export VERIF_SCRATCH
	trap 'rm -rf "$VERIF_SCRATCH"' EXIT INT TERM
	if [ "$1" = check ]; then
		"$VERIF_DIR/bin/verif" check "$2" ${3:-}
	else
		"$VERIF_DIR/bin/verif" replay "$2"
	fi
	exit $?
	;;
*)
	echo "usage: $0 setup | check <ID> [quick|thorough] | replay <file>" >&2
	exit 2
	;;
esac
